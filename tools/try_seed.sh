#!/bin/bash
# usage: tools/try_seed.sh <dir with patch.diff> <property> [more properties...]
# applies the patch to /repo, runs the quick checks, ALWAYS restores /repo afterwards
set -u
D="$1"; shift
cd /verif
if ! git -C /repo diff --quiet; then echo "/repo is dirty - refusing"; exit 3; fi
trap 'git -C /repo checkout -- . ; git -C /repo status --short' EXIT
git -C /repo apply "$D/patch.diff" || { echo "patch does not apply"; exit 3; }
for P in "$@"; do
  echo "=== $P on $(basename $D)"
  VERIF_REPLAYS_DIR=/tmp/seed_replays VERIF_EVIDENCE_DIR=/tmp/seed_evidence ./check "$P" --tier ${TIER:-quick} ${EXTRA:-} > /tmp/seed_$$.log 2>&1
  rc=$?
  grep -E "VIOLATION|KNOWN-FINDING|UNDECIDED|^OK|failed obligation|failing input|note:" /tmp/seed_$$.log | cut -c1-400 | head -${LINES_MAX:-12}
  echo "rc=$rc"
done
rm -f /tmp/seed_$$.log
