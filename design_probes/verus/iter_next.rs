use vstd::prelude::*;
verus! {

pub assume_specification<T> [<[T]>::split_last] (s: &[T]) -> (r: Option<(&T, &[T])>)
    ensures
        s@.len() == 0 ==> r.is_none(),
        s@.len() > 0 ==> r.is_some() && *r.unwrap().0 == s@.last() && r.unwrap().1@ == s@.drop_last(),
;

fn slice_take_first<'a, T>(slice: &mut &'a [T]) -> (r: Option<&'a T>)
    ensures
        old(slice)@.len() == 0 ==> r.is_none() && final(slice)@ == old(slice)@,
        old(slice)@.len() > 0 ==> r == Some(&old(slice)@[0]) && final(slice)@ == old(slice)@.subrange(1, old(slice)@.len() as int),
{
    let (item, rest) = slice.split_first()?;
    *slice = rest;
    Some(item)
}

fn slice_take_last<'a, T>(slice: &mut &'a [T]) -> (r: Option<&'a T>)
{
    let (item, rest) = slice.split_last()?;
    *slice = rest;
    Some(item)
}

pub struct Iter<'a, T> {
    pub(crate) right: &'a [T],
    pub(crate) left: &'a [T],
}

impl<'a, T> Iter<'a, T> {
    spec fn view(&self) -> Seq<T> { self.right@ + self.left@ }

    fn next(&mut self) -> (r: Option<&'a T>)
        ensures
            old(self)@.len() == 0 ==> r.is_none() && final(self)@ == old(self)@,
            old(self)@.len() > 0 ==> r == Some(&old(self)@[0]) && final(self)@ =~= old(self)@.subrange(1, old(self)@.len() as int),
    {
        if let Some(item) = slice_take_first(&mut self.right) {
            Some(item)
        } else if let Some(item) = slice_take_first(&mut self.left) {
            Some(item)
        } else {
            None
        }
    }

    fn len(&self) -> (r: usize) 
        ensures r == self@.len()
    {
        self.right.len() + self.left.len()
    }
}

} // verus!
fn main() {}
