// Harness-encoded contracts: symbolic pre-state under wf; call of the REAL function;
// postcondition over the whole abstract view + ledger + frame.

fn post_common<const N: usize>(b: &CircularBuffer<N, Tok>, what: &str) {
    assert!(wf(b), "[C01,C03,C04] representation invariant broken after the operation");
}

// ----- single-element insertion (C01 C02 C03 C20) ------------------------------------------

pub(crate) fn c_push_back<const N: usize>() {
    let mut b = any_tokbuf::<N>();
    let old = ids_of(&b); let old_slots = slots_of(&b);
    let x = Tok::fresh(); let xid = x.id;
    let r = b.push_back(x);
    post_common(&b, "push_back");
    let new = ids_of(&b);
    let mut m = old; let mr = m.push_back_capped(xid, N);
    assert!(opt_id(&r) == mr, "[C01,C02] push_back: returned element is not the displaced one");
    assert!(new.eq(&m), "[C01,C02] push_back: contents differ from the capped-deque model");
    assert!(b.len() == m.len && b.is_empty() == (m.len == 0) && b.is_full() == (m.len == N), "[C01] push_back: len/is_empty/is_full");
    assert!(ledger_ok(&new, &held1(&r)), "[C03] push_back: element lost, duplicated or destroyed");
    assert!(relocated(&old_slots, &slots_of(&b), next_id()) <= 2, "[C20] push_back relocates more than two surviving elements");
    nd::reached();
    core::mem::forget(r); core::mem::forget(b);
}

pub(crate) fn c_push_front<const N: usize>() {
    let mut b = any_tokbuf::<N>();
    let old = ids_of(&b); let old_slots = slots_of(&b);
    let x = Tok::fresh(); let xid = x.id;
    let r = b.push_front(x);
    post_common(&b, "push_front");
    let new = ids_of(&b);
    let mut m = old; let mr = m.push_front_capped(xid, N);
    assert!(opt_id(&r) == mr, "[C01,C02] push_front: returned element is not the displaced one");
    assert!(new.eq(&m), "[C01,C02] push_front: contents differ from the capped-deque model");
    assert!(b.len() == m.len && b.is_empty() == (m.len == 0) && b.is_full() == (m.len == N), "[C01] push_front: len/is_empty/is_full");
    assert!(ledger_ok(&new, &held1(&r)), "[C03] push_front: element lost, duplicated or destroyed");
    assert!(relocated(&old_slots, &slots_of(&b), next_id()) <= 2, "[C20] push_front relocates more than two surviving elements");
    nd::reached();
    core::mem::forget(r); core::mem::forget(b);
}

pub(crate) fn c_try_push_back<const N: usize>() {
    let mut b = any_tokbuf::<N>();
    let old = ids_of(&b); let old_slots = slots_of(&b);
    let x = Tok::fresh(); let xid = x.id;
    let r = b.try_push_back(x);
    post_common(&b, "try_push_back");
    let new = ids_of(&b);
    let mut held = Seq::new();
    if old.len == N {
        // full (this includes capacity zero): Err with that very element, buffer unchanged
        match &r { Err(t) => { assert!(t.id == xid, "[C01,C02] try_push_back: Err carries a different element"); held.push(t.id); }
                   Ok(()) => assert!(false, "[C01,C02] try_push_back: returned Ok on a full buffer (element silently lost)") }
        assert!(new.eq(&old), "[C01,C02] try_push_back: full buffer changed");
    } else {
        assert!(r.is_ok(), "[C01,C02] try_push_back: returned Err although the buffer was not full");
        let mut m = old; m.push(xid);
        assert!(new.eq(&m), "[C01,C02] try_push_back: element not appended at the back");
    }
    assert!(ledger_ok(&new, &held), "[C03] try_push_back: element lost, duplicated or destroyed");
    assert!(relocated(&old_slots, &slots_of(&b), next_id()) <= 2, "[C20] try_push_back relocates more than two surviving elements");
    nd::reached();
    core::mem::forget(r); core::mem::forget(b);
}

pub(crate) fn c_try_push_front<const N: usize>() {
    let mut b = any_tokbuf::<N>();
    let old = ids_of(&b); let old_slots = slots_of(&b);
    let x = Tok::fresh(); let xid = x.id;
    let r = b.try_push_front(x);
    post_common(&b, "try_push_front");
    let new = ids_of(&b);
    let mut held = Seq::new();
    if old.len == N {
        match &r { Err(t) => { assert!(t.id == xid, "[C01,C02] try_push_front: Err carries a different element"); held.push(t.id); }
                   Ok(()) => assert!(false, "[C01,C02] try_push_front: returned Ok on a full buffer (element silently lost)") }
        assert!(new.eq(&old), "[C01,C02] try_push_front: full buffer changed");
    } else {
        assert!(r.is_ok(), "[C01,C02] try_push_front: returned Err although the buffer was not full");
        let mut m = old; m.push_front(xid);
        assert!(new.eq(&m), "[C01,C02] try_push_front: element not inserted at the front");
    }
    assert!(ledger_ok(&new, &held), "[C03] try_push_front: element lost, duplicated or destroyed");
    assert!(relocated(&old_slots, &slots_of(&b), next_id()) <= 2, "[C20] try_push_front relocates more than two surviving elements");
    nd::reached();
    core::mem::forget(r); core::mem::forget(b);
}

// ----- removal (C01 C03 C20) ----------------------------------------------------------------

pub(crate) fn c_pop_back<const N: usize>() {
    let mut b = any_tokbuf::<N>();
    let old = ids_of(&b); let old_slots = slots_of(&b);
    let r = b.pop_back();
    post_common(&b, "pop_back");
    let new = ids_of(&b);
    let mut m = old; let mr = m.pop_back();
    assert!(opt_id(&r) == mr, "[C01] pop_back: wrong element returned");
    assert!(new.eq(&m), "[C01] pop_back: contents differ from the model");
    assert!(ledger_ok(&new, &held1(&r)), "[C03] pop_back: element lost, duplicated or destroyed");
    assert!(relocated(&old_slots, &slots_of(&b), next_id()) <= 2, "[C20] pop_back relocates more than two surviving elements");
    nd::reached();
    core::mem::forget(r); core::mem::forget(b);
}

pub(crate) fn c_pop_front<const N: usize>() {
    let mut b = any_tokbuf::<N>();
    let old = ids_of(&b); let old_slots = slots_of(&b);
    let r = b.pop_front();
    post_common(&b, "pop_front");
    let new = ids_of(&b);
    let mut m = old; let mr = m.pop_front();
    assert!(opt_id(&r) == mr, "[C01] pop_front: wrong element returned");
    assert!(new.eq(&m), "[C01] pop_front: contents differ from the model");
    assert!(ledger_ok(&new, &held1(&r)), "[C03] pop_front: element lost, duplicated or destroyed");
    assert!(relocated(&old_slots, &slots_of(&b), next_id()) <= 2, "[C20] pop_front relocates more than two surviving elements");
    nd::reached();
    core::mem::forget(r); core::mem::forget(b);
}

pub(crate) fn c_remove<const N: usize>() {
    let mut b = any_tokbuf::<N>();
    let old = ids_of(&b); let old_slots = slots_of(&b);
    let i = nd::any_usize();
    let r = b.remove(i);
    post_common(&b, "remove");
    let new = ids_of(&b);
    let mut m = old; let mr = m.remove(i);
    assert!(opt_id(&r) == mr, "[C01] remove: wrong element returned (or Some/None wrong)");
    assert!(new.eq(&m), "[C01] remove: contents differ from the model");
    assert!(ledger_ok(&new, &held1(&r)), "[C03] remove: element lost, duplicated or destroyed");
    let budget = if i < old.len { old.len - i } else { 0 };
    assert!(relocated(&old_slots, &slots_of(&b), next_id()) <= budget, "[C20] remove(i) relocates more than len-i surviving elements");
    nd::reached();
    core::mem::forget(r); core::mem::forget(b);
}

pub(crate) fn c_swap<const N: usize>() {
    let mut b = any_tokbuf::<N>();
    let old = ids_of(&b); let old_slots = slots_of(&b);
    let i = nd::any_usize(); let j = nd::any_usize();
    nd::assume(i < old.len && j < old.len);
    b.swap(i, j);
    post_common(&b, "swap");
    let new = ids_of(&b);
    let mut m = old; m.swap(i, j);
    assert!(new.eq(&m), "[C01] swap: contents differ from the model");
    assert!(ledger_ok(&new, &Seq::new()), "[C03] swap: element lost, duplicated or destroyed");
    assert!(relocated(&old_slots, &slots_of(&b), next_id()) <= 2, "[C20] swap relocates more than two surviving elements");
    nd::reached();
    core::mem::forget(b);
}

pub(crate) fn c_swap_remove_back<const N: usize>() {
    let mut b = any_tokbuf::<N>();
    let old = ids_of(&b); let old_slots = slots_of(&b);
    let i = nd::any_usize();
    let r = b.swap_remove_back(i);
    post_common(&b, "swap_remove_back");
    let new = ids_of(&b);
    let mut m = old;
    let mr = if i < m.len { let l = m.len - 1; m.swap(i, l); m.pop_back() } else { None };
    assert!(opt_id(&r) == mr, "[C01] swap_remove_back: wrong element returned");
    assert!(new.eq(&m), "[C01] swap_remove_back: contents differ from the model");
    assert!(ledger_ok(&new, &held1(&r)), "[C03] swap_remove_back: element lost, duplicated or destroyed");
    assert!(relocated(&old_slots, &slots_of(&b), next_id()) <= 2, "[C20] swap_remove_back relocates more than two surviving elements");
    nd::reached();
    core::mem::forget(r); core::mem::forget(b);
}

pub(crate) fn c_swap_remove_front<const N: usize>() {
    let mut b = any_tokbuf::<N>();
    let old = ids_of(&b); let old_slots = slots_of(&b);
    let i = nd::any_usize();
    let r = b.swap_remove_front(i);
    post_common(&b, "swap_remove_front");
    let new = ids_of(&b);
    let mut m = old;
    let mr = if i < m.len { m.swap(i, 0); m.pop_front() } else { None };
    assert!(opt_id(&r) == mr, "[C01] swap_remove_front: wrong element returned");
    assert!(new.eq(&m), "[C01] swap_remove_front: contents differ from the model");
    assert!(ledger_ok(&new, &held1(&r)), "[C03] swap_remove_front: element lost, duplicated or destroyed");
    assert!(relocated(&old_slots, &slots_of(&b), next_id()) <= 2, "[C20] swap_remove_front relocates more than two surviving elements");
    nd::reached();
    core::mem::forget(r); core::mem::forget(b);
}

// ----- truncation (C01 C03 C05 C20) ---------------------------------------------------------

pub(crate) fn c_truncate_back<const N: usize>() {
    let mut b = any_tokbuf::<N>();
    watch(&b);
    let old = ids_of(&b); let old_slots = slots_of(&b);
    let len = nd::any_usize();
    b.truncate_back(len);
    unwatch();
    post_common(&b, "truncate_back");
    let new = ids_of(&b);
    let mut m = old; m.keep_first(len);
    assert!(new.eq(&m), "[C01] truncate_back: contents differ from the model");
    assert!(ledger_ok(&new, &Seq::new()), "[C03] truncate_back: element lost, duplicated, leaked or destroyed while reachable");
    assert!(relocated(&old_slots, &slots_of(&b), next_id()) <= 2, "[C20] truncate_back relocates more than two surviving elements");
    nd::reached();
    core::mem::forget(b);
}

pub(crate) fn c_truncate_front<const N: usize>() {
    let mut b = any_tokbuf::<N>();
    watch(&b);
    let old = ids_of(&b); let old_slots = slots_of(&b);
    let len = nd::any_usize();
    b.truncate_front(len);
    unwatch();
    post_common(&b, "truncate_front");
    let new = ids_of(&b);
    let mut m = old; m.keep_last(len);
    assert!(new.eq(&m), "[C01] truncate_front: contents differ from the model");
    assert!(ledger_ok(&new, &Seq::new()), "[C03] truncate_front: element lost, duplicated, leaked or destroyed while reachable");
    assert!(relocated(&old_slots, &slots_of(&b), next_id()) <= 2, "[C20] truncate_front relocates more than two surviving elements");
    nd::reached();
    core::mem::forget(b);
}

pub(crate) fn c_clear<const N: usize>() {
    let mut b = any_tokbuf::<N>();
    watch(&b);
    b.clear();
    unwatch();
    post_common(&b, "clear");
    let new = ids_of(&b);
    assert!(new.len == 0 && b.is_empty(), "[C01] clear: buffer not empty");
    assert!(ledger_ok(&new, &Seq::new()), "[C03] clear: element leaked or destroyed twice");
    nd::reached();
    core::mem::forget(b);
}

pub(crate) fn c_drop_buffer<const N: usize>() {
    let mut b = any_tokbuf::<N>();
    watch(&b);
    unsafe { core::ptr::drop_in_place(&mut b); }   // Drop::drop in place (a move would change the watched address)
    core::mem::forget(b);
    unwatch();
    assert!(ledger_ok(&Seq::new(), &Seq::new()), "[C03] dropping the buffer: element leaked or destroyed twice");
    nd::reached();
}

// ----- make_contiguous and views (C01 C07 C20) ---------------------------------------------

fn slot_ptr<const N: usize>(b: &CircularBuffer<N, Tok>, i: usize) -> *const Tok {
    b.items[phys(b.start, i, N)].as_ptr()
}

pub(crate) fn c_make_contiguous<const N: usize>() {
    let mut b = any_tokbuf::<N>();
    let old = ids_of(&b); let old_slots = slots_of(&b);
    let was_contiguous = N == 0 || b.start + b.size <= N;
    let (ptr0, rlen, first_ok) = {
        let s = b.make_contiguous();
        let mut ok = s.len() == old.len;
        let mut i = 0; while i < s.len() && i < old.len { if s[i].id != old.a[i] { ok = false; } i += 1; }
        (s.as_ptr(), s.len(), ok)
    };
    post_common(&b, "make_contiguous");
    assert!(first_ok, "[C01,C07] make_contiguous: returned slice is not the whole contents in order");
    let new = ids_of(&b);
    assert!(new.eq(&old), "[C01] make_contiguous: logical contents changed");
    if old.len > 0 { assert!(ptr0 == slot_ptr(&b, 0), "[C07] make_contiguous: returned slice does not alias the buffer's elements"); }
    assert!(N == 0 || b.start + b.size <= N, "[C07] make_contiguous: contents not contiguous afterwards");
    { let (x, y) = b.as_slices(); assert!(y.len() == 0 && x.len() == old.len, "[C07] make_contiguous: as_slices still reports two slices"); }
    assert!(ledger_ok(&new, &Seq::new()), "[C03] make_contiguous: element lost, duplicated or destroyed");
    if was_contiguous { assert!(relocated(&old_slots, &slots_of(&b), next_id()) == 0, "[C20] make_contiguous relocated elements although the contents were already contiguous"); }
    nd::reached();
    core::mem::forget(b);
}

pub(crate) fn c_get<const N: usize>() {
    let b = any_tokbuf::<N>();
    let old = ids_of(&b);
    let i = nd::any_usize();
    // get / nth_front
    match b.get(i) { Some(t) => assert!(i < old.len && t.id == old.a[i] && (t as *const Tok) == slot_ptr(&b, i), "[C07] get(i): wrong element or address"),
                     None => assert!(i >= old.len, "[C07,C11] get(i) returned None for a position inside the contents") }
    match b.nth_front(i) { Some(t) => assert!(i < old.len && (t as *const Tok) == slot_ptr(&b, i), "[C07] nth_front(i): wrong element or address"),
                           None => assert!(i >= old.len, "[C07] nth_front(i) returned None for a position inside the contents") }
    match b.nth_back(i) { Some(t) => assert!(i < old.len && (t as *const Tok) == slot_ptr(&b, old.len - 1 - i), "[C07] nth_back(i): wrong element or address"),
                          None => assert!(i >= old.len, "[C07] nth_back(i) returned None for a position inside the contents") }
    match b.front() { Some(t) => assert!(old.len > 0 && (t as *const Tok) == slot_ptr(&b, 0), "[C07] front(): wrong element or address"),
                      None => assert!(old.len == 0, "[C07] front() returned None on a non-empty buffer") }
    match b.back() { Some(t) => assert!(old.len > 0 && (t as *const Tok) == slot_ptr(&b, old.len - 1), "[C07] back(): wrong element or address"),
                     None => assert!(old.len == 0, "[C07] back() returned None on a non-empty buffer") }
    if i < old.len { let t = &b[i]; assert!((t as *const Tok) == slot_ptr(&b, i), "[C07] index(i): wrong element or address"); }
    assert!(b.len() == old.len && b.capacity() == N, "[C01,C07] len()/capacity() disagree with the contents");
    assert!(ids_of(&b).eq(&old), "[C07] read accessor changed the buffer");
    nd::reached();
    core::mem::forget(b);
}

pub(crate) fn c_get_mut<const N: usize>() {
    let mut b = any_tokbuf::<N>();
    let old = ids_of(&b);
    let (st, sz) = (b.start, b.size);
    let i = nd::any_usize();
    let which = nd::usize_in(0, 5);
    let (got, want_idx): (Option<*mut Tok>, Option<usize>) = match which {
        0 => (b.get_mut(i).map(|t| t as *mut Tok), if i < old.len { Some(i) } else { None }),
        1 => (b.nth_front_mut(i).map(|t| t as *mut Tok), if i < old.len { Some(i) } else { None }),
        2 => (b.nth_back_mut(i).map(|t| t as *mut Tok), if i < old.len { Some(old.len - 1 - i) } else { None }),
        3 => (b.front_mut().map(|t| t as *mut Tok), if old.len > 0 { Some(0) } else { None }),
        4 => (b.back_mut().map(|t| t as *mut Tok), if old.len > 0 { Some(old.len - 1) } else { None }),
        _ => { if i < old.len { (Some(&mut b[i] as *mut Tok), Some(i)) } else { (None, None) } }
    };
    match (got, want_idx) {
        (Some(p), Some(k)) => assert!(p as *const Tok == slot_ptr(&b, k), "[C07] mutable accessor does not address exactly the requested element"),
        (None, None) => {},
        _ => assert!(false, "[C07] mutable accessor: Some/None does not match the contents"),
    }
    assert!(b.start == st && b.size == sz && ids_of(&b).eq(&old), "[C01,C07] mutable accessor changed the buffer by itself");
    // a write through the reference changes exactly that position
    if let (Some(p), Some(k)) = (got, want_idx) {
        unsafe { (*p).id = 63; }
        let new = ids_of(&b);
        let mut m = old; m.a[k] = 63;
        assert!(new.eq(&m), "[C01,C07] write through a mutable accessor changed a different position");
    }
    nd::reached();
    core::mem::forget(b);
}

pub(crate) fn c_as_slices<const N: usize>() {
    let mut b = any_tokbuf::<N>();
    let old = ids_of(&b);
    {
        let (x, y) = b.as_slices();
        assert!(x.len() + y.len() == old.len, "[C07] as_slices: total length differs from len()");
        assert!(old.len == 0 || x.len() > 0, "[C07,C14] as_slices: first slice empty although the buffer is not");
        let mut i = 0;
        while i < old.len {
            let t = if i < x.len() { &x[i] } else { &y[i - x.len()] };
            assert!(t.id == old.a[i] && (t as *const Tok) == slot_ptr(&b, i), "[C07] as_slices: concatenation is not the contents in order");
            i += 1;
        }
    }
    {
        let (x, y) = b.as_mut_slices();
        let (xl, yl) = (x.len(), y.len());
        let (xp, yp) = (x.as_ptr(), y.as_ptr());
        assert!(xl + yl == old.len, "[C07] as_mut_slices: total length differs from len()");
        let mut i = 0;
        while i < old.len {
            let p = if i < xl { unsafe { xp.add(i) } } else { unsafe { yp.add(i - xl) } };
            assert!(p == slot_ptr(&b, i), "[C07] as_mut_slices: does not alias exactly the elements in order");
            i += 1;
        }
    }
    assert!(ids_of(&b).eq(&old), "[C07] slice views changed the buffer");
    nd::reached();
    core::mem::forget(b);
}

pub(crate) fn c_iter_views<const N: usize>() {
    let mut b = any_tokbuf::<N>();
    let old = ids_of(&b);
    {
        let mut it = b.iter();
        assert!(it.len() == old.len, "[C07,C08] iter().len() differs from len()");
        let mut i = 0;
        while i < old.len {
            match it.next() { Some(t) => assert!(t.id == old.a[i] && (t as *const Tok) == slot_ptr(&b, i), "[C07,C08] iter(): wrong element at this position"),
                              None => assert!(false, "[C07,C08] iter() ended early") }
            i += 1;
        }
        assert!(it.next().is_none() && it.next_back().is_none(), "[C07,C08] iter() yields more than the contents");
    }
    {
        let mut ptrs = [core::ptr::null::<Tok>(); CAP];
        let mut k = 0;
        {
            let mut it = b.iter_mut();
            assert!(it.len() == old.len, "[C07,C08] iter_mut().len() differs from len()");
            while let Some(t) = it.next() { assert!(k < old.len, "[C07,C08] iter_mut() yields more than the contents"); ptrs[k] = t as *mut Tok as *const Tok; k += 1; }
        }
        assert!(k == old.len, "[C07,C08] iter_mut() ended early");
        let mut i = 0; while i < old.len { assert!(ptrs[i] == slot_ptr(&b, i), "[C07,C08] iter_mut(): does not address the elements in order, pairwise distinct"); i += 1; }
    }
    {
        let mut it = (&b).into_iter();
        let mut i = 0; while i < old.len { assert!(it.next().map(|t| t.id) == Some(old.a[i]), "[C07,C08] (&buf).into_iter(): wrong element"); i += 1; }
        assert!(it.next().is_none(), "[C07,C08] (&buf).into_iter() yields more than the contents");
    }
    assert!(ids_of(&b).eq(&old), "[C07] iterators changed the buffer");
    nd::reached();
    core::mem::forget(b);
}

// ----- fill family (C01 C03 C05 C06) --------------------------------------------------------

fn is_value_or_clone(id: u8, vid: u8) -> bool { id == vid || ((id as usize) < MAXID && parent(id as usize) == vid) }

pub(crate) fn c_fill_spare<const N: usize>() {
    let mut b = any_tokbuf::<N>();
    watch(&b);
    let old = ids_of(&b);
    let v = Tok::fresh(); let vid = v.id;
    b.fill_spare(v);
    unwatch();
    post_common(&b, "fill_spare");
    let new = ids_of(&b);
    assert!(new.len == N && b.is_full(), "[C01] fill_spare: buffer not full afterwards");
    let mut i = 0;
    while i < new.len {
        if i < old.len { assert!(new.a[i] == old.a[i], "[C01] fill_spare: existing element changed"); }
        else { assert!(is_value_or_clone(new.a[i], vid), "[C01] fill_spare: free slot not filled with the value or a clone of it"); }
        i += 1;
    }
    assert!(ledger_ok(&new, &Seq::new()), "[C03] fill_spare: element lost, duplicated, leaked or destroyed twice");
    nd::reached();
    core::mem::forget(b);
}

pub(crate) fn c_fill<const N: usize>() {
    let mut b = any_tokbuf::<N>();
    watch(&b);
    let old = ids_of(&b);
    let v = Tok::fresh(); let vid = v.id;
    b.fill(v);
    unwatch();
    post_common(&b, "fill");
    let new = ids_of(&b);
    assert!(new.len == N && b.is_full(), "[C01] fill: buffer not full afterwards");
    let mut i = 0; while i < new.len { assert!(is_value_or_clone(new.a[i], vid), "[C01] fill: position does not hold the value or a clone of it"); i += 1; }
    assert!(ledger_ok(&new, &Seq::new()), "[C03] fill: old element leaked / element destroyed twice");
    nd::reached();
    core::mem::forget(b);
}

pub(crate) fn c_fill_with<const N: usize>() {
    let mut b = any_tokbuf::<N>();
    watch(&b);
    let old = ids_of(&b);
    let first = next_id();
    let spare_only = nd::any_bool();
    if spare_only { b.fill_spare_with(|| { callback_entry(); Tok::fresh() }); } else { b.fill_with(|| { callback_entry(); Tok::fresh() }); }
    unwatch();
    post_common(&b, "fill_with");
    let new = ids_of(&b);
    assert!(new.len == N && b.is_full(), "[C01] fill_with/fill_spare_with: buffer not full afterwards");
    let keep = if spare_only { old.len } else { 0 };
    let mut i = 0;
    while i < new.len {
        if i < keep { assert!(new.a[i] == old.a[i], "[C01] fill_spare_with: existing element changed"); }
        else { assert!(new.a[i] as usize == first + (i - keep), "[C01] fill_with/fill_spare_with: generated elements not stored in call order"); }
        i += 1;
    }
    assert!(next_id() == first + (N - keep), "[C01] fill_with/fill_spare_with: closure called a wrong number of times");
    assert!(ledger_ok(&new, &Seq::new()), "[C03] fill_with/fill_spare_with: element lost, duplicated, leaked or destroyed twice");
    nd::reached();
    core::mem::forget(b);
}

// ----- bulk insertion and conversions (C01 C03 C06 C12) -------------------------------------

pub(crate) struct TokIter { pub left: usize }
impl Iterator for TokIter {
    type Item = Tok;
    fn next(&mut self) -> Option<Tok> { callback_entry(); if self.left == 0 { None } else { self.left -= 1; Some(Tok::fresh()) } }
}

pub(crate) fn c_extend<const N: usize>() {
    let mut b = any_tokbuf::<N>();
    watch(&b);
    let old = ids_of(&b);
    let n = nd::usize_in(0, N + 2);
    let first = next_id();
    b.extend(TokIter { left: n });
    unwatch();
    post_common(&b, "extend");
    let new = ids_of(&b);
    let mut m = old; let mut k = 0; while k < n { m.push((first + k) as u8); k += 1; }
    m.keep_last(N);
    assert!(new.eq(&m), "[C01,C12] extend: contents are not the last N of (old contents ++ items)");
    assert!(ledger_ok(&new, &Seq::new()), "[C03,C12] extend: evicted element not destroyed exactly once / element lost");
    nd::reached();
    core::mem::forget(b);
}

pub(crate) fn c_from_iter<const N: usize>() {
    let n = nd::usize_in(0, N + 2);
    let first = next_id();
    let b: CircularBuffer<N, Tok> = TokIter { left: n }.collect();
    post_common(&b, "from_iter");
    let new = ids_of(&b);
    let mut m = Seq::new(); let mut k = 0; while k < n { m.push((first + k) as u8); k += 1; }
    m.keep_last(N);
    assert!(new.eq(&m), "[C12] from_iter: contents are not the last N items in order");
    assert!(ledger_ok(&new, &Seq::new()), "[C03,C12] from_iter: discarded item not destroyed exactly once / element lost");
    nd::reached();
    core::mem::forget(b);
}

pub(crate) fn c_extend_from_slice<const N: usize, const L: usize>() {
    let mut b = any_tokbuf::<N>();
    watch(&b);
    let old = ids_of(&b);
    let src: [Tok; L] = core::array::from_fn(|_| Tok::fresh());
    let first_src = if L > 0 { src[0].id as usize } else { 0 };
    let n = nd::usize_in(0, L);
    b.extend_from_slice(&src[..n]);
    unwatch();
    post_common(&b, "extend_from_slice");
    let new = ids_of(&b);
    let total = old.len + n;
    let keep = if total < N { total } else { N };
    assert!(new.len == keep, "[C01] extend_from_slice: wrong length");
    let skip = total - keep;
    let mut i = 0;
    while i < keep && i < new.len {
        let j = skip + i;
        let id = new.a[i] as usize;
        if j < old.len { assert!(id == old.a[j] as usize, "[C01] extend_from_slice: surviving old element missing or out of order"); }
        else { assert!(id < MAXID && id >= first_src + L && parent(id) as usize == first_src + (j - old.len), "[C01] extend_from_slice: position does not hold a fresh clone of the right slice element"); }
        i += 1;
    }
    let mut held = Seq::new(); let mut k = 0; while k < L { held.push(src[k].id); k += 1; }
    assert!(ledger_ok(&new, &held), "[C03] extend_from_slice: evicted element not destroyed exactly once / clone leaked or duplicated");
    nd::reached();
    core::mem::forget(b); core::mem::forget(src);
}

pub(crate) fn c_from_array<const N: usize, const M: usize>() {
    let arr: [Tok; M] = core::array::from_fn(|_| Tok::fresh());
    let b: CircularBuffer<N, Tok> = CircularBuffer::from(arr);
    post_common(&b, "from(array)");
    let new = ids_of(&b);
    let keep = if M < N { M } else { N };
    assert!(new.len == keep, "[C12] From<[T; M]>: wrong length");
    let mut i = 0; while i < keep && i < new.len { assert!(new.a[i] as usize == M - keep + i, "[C12] From<[T; M]>: contents are not the last N array elements in order"); i += 1; }
    assert!(ledger_ok(&new, &Seq::new()), "[C03,C12] From<[T; M]>: discarded prefix not destroyed exactly once / element duplicated");
    nd::reached();
    core::mem::forget(b);
}

pub(crate) fn c_new<const N: usize>() {
    let b = CircularBuffer::<N, Tok>::new();
    assert!(wf(&b) && b.len() == 0 && b.is_empty() && b.capacity() == N, "[C12] new(): not an empty buffer of capacity N");
    let d: CircularBuffer<N, Tok> = Default::default();
    assert!(wf(&d) && d.len() == 0 && d.is_empty(), "[C12] default(): not an empty buffer");
    nd::reached();
}

#[cfg(feature = "alloc")]
pub(crate) fn c_boxed<const N: usize>() {
    let b = CircularBuffer::<N, Tok>::boxed();
    assert!(wf(&*b) && b.len() == 0 && b.is_empty() && b.capacity() == N, "[C12] boxed(): not an empty buffer of capacity N");
    nd::reached();
}

pub(crate) fn c_clone<const N: usize>() {
    let b = any_tokbuf::<N>();
    watch(&b);
    let old = ids_of(&b);
    let first = next_id();
    let c = b.clone();
    unwatch();
    post_common(&c, "clone");
    let cn = ids_of(&c);
    assert!(ids_of(&b).eq(&old), "[C12] clone: source changed");
    assert!(cn.len == old.len, "[C12] clone: wrong length");
    let mut i = 0;
    while i < old.len && i < cn.len {
        let id = cn.a[i] as usize;
        assert!(id >= first && id < MAXID && parent(id) == old.a[i], "[C12] clone: position is not a fresh clone of the source element at the same position");
        i += 1;
    }
    let mut both = old; let mut k = 0; while k < cn.len { both.push(cn.a[k]); k += 1; }
    assert!(ledger_ok(&both, &Seq::new()), "[C03,C12] clone: element shared, lost or destroyed");
    nd::reached();
    core::mem::forget(b); core::mem::forget(c);
}

pub(crate) fn c_clone_from<const N: usize>() {
    let mut dst = any_tokbuf::<N>();
    let src = any_tokbuf::<N>();
    watch(&dst);
    let old_dst = ids_of(&dst); let old_src = ids_of(&src);
    let first = next_id();
    dst.clone_from(&src);
    unwatch();
    post_common(&dst, "clone_from");
    let dn = ids_of(&dst);
    assert!(ids_of(&src).eq(&old_src), "[C12] clone_from: source changed");
    assert!(dn.len == old_src.len, "[C12] clone_from: wrong length");
    let mut i = 0;
    while i < old_src.len && i < dn.len {
        let id = dn.a[i] as usize;
        assert!(id >= first && id < MAXID && parent(id) == old_src.a[i], "[C12] clone_from: position is not a fresh clone of the source element at the same position");
        i += 1;
    }
    let mut both = old_src; let mut k = 0; while k < dn.len { both.push(dn.a[k]); k += 1; }
    assert!(ledger_ok(&both, &Seq::new()), "[C03,C12] clone_from: old contents not destroyed exactly once / element shared or lost");
    nd::reached();
    core::mem::forget(dst); core::mem::forget(src);
}

#[cfg(feature = "alloc")]
pub(crate) fn c_to_vec<const N: usize>() {
    let b = any_tokbuf::<N>();
    watch(&b);
    let old = ids_of(&b);
    let first = next_id();
    let v = b.to_vec();
    unwatch();
    assert!(ids_of(&b).eq(&old), "[C12] to_vec: source changed");
    assert!(v.len() == old.len, "[C07,C12] to_vec: wrong length");
    let mut both = old;
    let mut i = 0;
    while i < old.len && i < v.len() {
        let id = v[i].id as usize;
        assert!(id >= first && id < MAXID && parent(id) == old.a[i], "[C07,C12] to_vec: element is not a fresh clone of the element at the same position");
        both.push(v[i].id);
        i += 1;
    }
    assert!(ledger_ok(&both, &Seq::new()), "[C03,C12] to_vec: element shared, lost or destroyed");
    nd::reached();
    core::mem::forget(b); core::mem::forget(v);
}

/// owning iterator: any interleaving of next / next_back, then dropped after any number of steps
pub(crate) fn c_into_iter<const N: usize>() {
    let b = any_tokbuf::<N>();
    let old = ids_of(&b);
    let mut it = b.into_iter();
    let mut m = old; let mut held = Seq::new();
    let steps = nd::usize_in(0, N + 1);
    let mut k = 0;
    while k < steps {
        assert!(it.len() == m.len && it.size_hint() == (m.len, Some(m.len)), "[C08] into_iter: len()/size_hint() differ from the number of elements not yet produced");
        if nd::any_bool() {
            let r = it.next(); let mr = m.pop_front();
            assert!(opt_id(&r) == mr, "[C08,C12] into_iter: next() does not yield the front-most remaining element");
            if let Some(t) = r { held.push(t.id); core::mem::forget(t); }
        } else {
            let r = it.next_back(); let mr = m.pop_back();
            assert!(opt_id(&r) == mr, "[C08,C12] into_iter: next_back() does not yield the back-most remaining element");
            if let Some(t) = r { held.push(t.id); core::mem::forget(t); }
        }
        k += 1;
    }
    assert!(ledger_ok(&m, &held), "[C03] into_iter: element lost, duplicated or destroyed while iterating");
    drop(it);
    assert!(ledger_ok(&Seq::new(), &held), "[C03,C12] into_iter: remaining elements not destroyed exactly once when the iterator is dropped");
    nd::reached();
}
