"""verusgen -- build the Verus input file from /repo's current sources + /verif/contracts/verus/*.vt

Template directives (everything else is copied verbatim):

  //@@ struct <file> <Name>
        copy the struct item from the repo (visibility and doc comments dropped)
  //@@ fn <file> <key> [ret=<name>] [trusted] [rename=<newname>]
        <spec text: requires / ensures / decreases ...>
  //@@ head
        <text inserted as first statement(s) of the body, normally `proof { ... }`>
  //@@ loop <k>
        <loop contract inserted between the header of the k-th loop and its `{`>
  //@@ end

For `trusted` functions the repo body is replaced by `unimplemented!()` under
#[verifier::external_body]; they are reported in the trusted base.
"""
import hashlib
import os
import re

from . import rsx
from .rsx import ExtractionError

TAG_RE = re.compile(r'/\*\[([A-Z0-9, ]+)\]\s*([^*]*)\*/')


class GenResult:
    def __init__(self):
        self.text = ''
        self.linemap = []       # per output line (1-based index-1): dict(fn, section, tags, name, src_line)
        self.functions = {}     # key -> dict(file, lines, sha256, rewrites, trusted, verus_name)
        self.trusted = []       # human-readable trusted-base entries
        self.files = {}         # relname -> sha256 of the whole source file


def _tags(line):
    m = TAG_RE.search(line)
    if not m:
        return None, None
    return [t.strip() for t in m.group(1).split(',') if t.strip()], m.group(2).strip()


def generate(repo_src_dir, template_paths, vacuity=False):
    res = GenResult()
    index = {}
    srcs = {}

    def load(relname):
        if relname not in index:
            path = os.path.join(repo_src_dir, relname)
            if not os.path.exists(path):
                raise ExtractionError('source file %s not found' % relname)
            src, items = rsx.index_file(path, relname)
            srcs[relname] = src
            res.files[relname] = hashlib.sha256(src.encode()).hexdigest()
            d = {}
            for it in items:
                d.setdefault(it.key, []).append(it)
            index[relname] = d
        return index[relname]

    out_lines = []

    def emit(text, **info):
        for ln in text.split('\n'):
            out_lines.append(ln)
            res.linemap.append(dict(info))

    for tpath in template_paths:
        tlines = open(tpath).read().split('\n')
        i = 0
        while i < len(tlines):
            ln = tlines[i]
            s = ln.strip()
            if s.startswith('//@@ struct '):
                _, _, relname, name = s.split()
                load(relname)
                src = srcs[relname]
                msk = rsx.mask(src)
                m = re.search(r'\bstruct\s+%s\b' % re.escape(name), msk)
                if not m:
                    raise ExtractionError('struct %s not found in %s' % (name, relname))
                b = msk.find('{', m.end())
                e = rsx.match_close(msk, b)
                text = src[m.start():e + 1]
                text = re.sub(r'^\s*///.*$', '', text, flags=re.M)
                text = re.sub(r'\bpub(\s*\([^)]*\))?\s+', '', text)
                text = '\n'.join(l for l in text.split('\n') if l.strip())
                emit(text, section='struct', fn=name)
                res.functions['struct ' + name] = dict(file=relname, sha256=hashlib.sha256(src[m.start():e + 1].encode()).hexdigest(),
                                                       rewrites=['visibility and doc comments dropped'], trusted=False,
                                                       lines=[src.count('\n', 0, m.start()) + 1, src.count('\n', 0, e) + 1])
                i += 1
                continue
            if s.startswith('//@@ fn '):
                parts = s.split()
                relname, key = parts[2], parts[3].replace('%', ' ')
                opts = parts[4:]
                retname = 'r'
                trusted = False
                rename = None
                inherent = False
                for o in opts:
                    if o.startswith('ret='):
                        retname = o[4:]
                    elif o == 'trusted':
                        trusted = True
                    elif o.startswith('rename='):
                        rename = o[7:]
                    elif o == 'inherent':
                        inherent = True
                    else:
                        raise ExtractionError('unknown directive option %s' % o)
                # collect sections
                sections = {'spec': [], 'head': [], 'loops': {}}
                cur = sections['spec']
                i += 1
                while i < len(tlines) and tlines[i].strip() != '//@@ end':
                    t = tlines[i].strip()
                    if t == '//@@ head':
                        cur = sections['head']
                    elif t.startswith('//@@ attr '):
                        sections.setdefault('attrs', []).append(t[len('//@@ attr '):])
                    elif t.startswith('//@@ loop '):
                        k = int(t.split()[2])
                        cur = sections['loops'].setdefault(k, [])
                    elif t.startswith('//@@'):
                        raise ExtractionError('unexpected directive inside fn block: %s' % t)
                    else:
                        cur.append(tlines[i])
                    i += 1
                if i >= len(tlines):
                    raise ExtractionError('missing //@@ end for %s' % key)
                i += 1
                cands = load(relname).get(key, [])
                if len(cands) != 1:
                    raise ExtractionError('function %s: %d candidates in %s' % (key, len(cands), relname))
                it = cands[0]
                log = []
                head, ret, where = rsx.split_sig(it.sig)
                head = rsx.strip_visibility(head)
                head = re.sub(r'\s+', ' ', head).strip()
                head = head.replace('( ', '(').replace(', )', ')')
                mut_self = bool(re.search(r'\(\s*mut self\b', head))
                if mut_self:
                    head = re.sub(r'\(\s*mut self\b', '(self', head)
                if rename:
                    head = re.sub(r'\bfn\s+%s\b' % re.escape(it.name), 'fn ' + rename, head, count=1)
                    log.append('renamed %s -> %s (name clash in the single-module file)' % (it.name, rename))
                if inherent:
                    # R6: a trait-impl method is emitted as an inherent method; `Self::<Assoc>` is replaced by
                    # the associated type defined in that impl
                    assoc = dict(it.assoc_types)
                    selfty = (it.owner or '').split(' for ')[-1]
                    for lst in index[relname].values():
                        for other in lst:
                            if (other.owner or '').split(' for ')[-1] == selfty:
                                for an, at in other.assoc_types.items():
                                    assoc.setdefault(an, at)
                    for an, at in assoc.items():
                        if ret is not None:
                            ret = re.sub(r'\bSelf::%s\b' % re.escape(an), at, ret)
                        head = re.sub(r'\bSelf::%s\b' % re.escape(an), at, head)
                    log.append('R6: method of `%s` emitted as an inherent method (associated types substituted: %s)' % (it.impl_header, assoc))
                sig = head
                if ret is not None:
                    sig += ' -> (%s: %s)' % (retname, rsx.norm_ws(ret))
                if where:
                    sig += '\n    ' + rsx.norm_ws(where)
                log.append('doc comments, attributes and visibility dropped')
                vname = rename or it.name
                info = dict(fn=key, verus_name=vname)
                if trusted:
                    emit('#[verifier::external_body]', section='sig', **info)
                for at in sections.get('attrs', []):
                    emit(at, section='sig', **info)
                emit(sig, section='sig', **info)
                curtags, curname = None, None
                for sl in sections['spec']:
                    tg, nm = _tags(sl)
                    if tg:
                        curtags, curname = tg, nm
                    emit(sl, section='spec', tags=curtags, name=curname, **info)
                if trusted:
                    emit('{ unimplemented!() }', section='body', **info)
                    log.append('TRUSTED: body not verified by Verus (replaced by unimplemented!())')
                    res.trusted.append('%s (%s:%d-%d): contract assumed by Verus; body exercised by the Kani leg at bounded N'
                                       % (key, relname, it.line_start, it.line_end))
                else:
                    body = it.body
                    if mut_self:
                        # R7: `mut self` receiver (unsupported by Verus) -> `self` + `let mut this = self;`
                        msk_b = rsx.mask(body)
                        pieces, last = [], 0
                        for mm in re.finditer(r'\bself\b', msk_b):
                            pieces.append(body[last:mm.start()])
                            pieces.append('this')
                            last = mm.end()
                        pieces.append(body[last:])
                        body = '\n        let mut this = self;' + ''.join(pieces)
                        log.append('R7: by-value `mut self` receiver rewritten to `self` + `let mut this = self;` (body uses `this`)')
                    body = rsx.resolve_cfg_unstable(body, log)
                    body, removed_fns, removed = rsx.hoist_nested_items(body, log)
                    body = rsx.rewrite_ptr_copy(body, log)
                    body = rsx.rewrite_swap(body, log)
                    body = rsx.rewrite_split_at_mut(body, log)
                    body = rsx.rewrite_assert_eq(body, log)
                    body = rsx.rewrite_min(body, log)
                    loops = {k: '\n'.join(v) for k, v in sections['loops'].items()}
                    # loop specs: emit with line info; do it by splitting body around insertion points
                    body = rsx.insert_loop_specs(body, {k: '/*@LOOP%d@*/' % k for k in loops}, log)
                    emit('{', section='body', **info)
                    if vacuity:
                        # vacuity guard: this assertion MUST fail; if it verifies the requires clause is unsatisfiable
                        emit('        proof { assert(false); }', section='vacuity', **info)
                    for hl in sections['head']:
                        emit(hl, section='head', **info)
                    base_line = it.line_start + it.sig.count('\n')
                    # emit body line by line, mapping to source lines approximately
                    # (exact mapping is lost for rewritten regions; it is only used for messages)
                    off = 0
                    for bl in body.split('\n'):
                        mm = re.search(r'/\*@LOOP(\d+)@\*/', bl)
                        if mm:
                            k = int(mm.group(1))
                            pre, post = bl[:mm.start()], bl[mm.end():]
                            if pre.strip():
                                emit(pre, section='body', src_line=base_line + off, **info)
                            ctags, cname = None, None
                            for ll in loops[k].split('\n'):
                                tg, nm = _tags(ll)
                                if tg:
                                    ctags, cname = tg, nm
                                emit(ll, section='loop%d' % k, tags=ctags, name=cname, **info)
                            if post.strip():
                                emit(post, section='body', src_line=base_line + off, **info)
                        else:
                            emit(bl, section='body', src_line=base_line + off, **info)
                        off += 1
                    emit('}', section='body', **info)
                    if removed_fns:
                        info2 = ', '.join(removed_fns)
                        log.append('nested fn(s) %s must be declared (trusted) in the template' % info2)
                res.functions[key] = dict(file=relname, lines=[it.line_start, it.line_end], sha256=it.sha(),
                                          rewrites=log, trusted=trusted, verus_name=vname)
                continue
            if s.startswith('//@@'):
                raise ExtractionError('stray directive: %s' % s)
            tg, nm = _tags(ln)
            emit(ln, section='template', tags=tg, name=nm, fn=None)
            i += 1
    res.text = '\n'.join(out_lines) + '\n'
    return res


def scan_trusted(text):
    """mechanical scan of the generated file for assumption constructs"""
    found = []
    lines = text.split('\n')
    for n, ln in enumerate(lines, 1):
        code = ln.split('//')[0]
        if re.search(r'\bassume_specification\b', code):
            found.append('assume_specification: ' + rsx.norm_ws(code)[:160])
        elif re.search(r'#\[verifier::external_body\]', code):
            nxt = ''
            for k in range(n, min(n + 3, len(lines))):
                if 'fn ' in lines[k]:
                    nxt = rsx.norm_ws(lines[k])[:120]
                    break
            found.append('external_body: ' + nxt)
        elif re.search(r'\b(assume|admit)\s*\(', code):
            found.append('assume/admit at line %d: %s' % (n, rsx.norm_ws(code)[:120]))
        elif re.search(r'#\[verifier::(external|external_fn_specification|external_type_specification)', code):
            found.append('external: ' + rsx.norm_ws(code)[:120])
    return found
