#!/bin/sh
# offline setup: nothing to build; confirm the verifiers are present and warm their caches
set -e
cd "$(dirname "$0")/.."
command -v verus >/dev/null || { echo "verus not on PATH"; exit 1; }
command -v cargo-kani >/dev/null || { echo "cargo-kani not on PATH"; exit 1; }
python3 -c "import sys; sys.path.insert(0,'.'); from vlib import driver" 
mkdir -p evidence replays
echo "setup ok"
