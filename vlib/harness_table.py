"""Table of Kani contract harnesses: generic contract fn in contracts/kani/*.rs x capacities.

props    : properties whose tagged assertions live in the harness
untagged : properties for which an UNTAGGED failing check (the crate's own assert!/debug_assert!/
           expect, arithmetic overflow, out-of-bounds, invalid pointer) counts as a violation.
           Default: props & TOTAL (properties whose statement fixes the RESULT of the call for every input -
           "returns normally / exactly those / yields exactly" - so that a panic inside the operation contradicts
           them), which includes C11 that every operation harness serves.
ns       : capacities per tier (thorough defaults to quick if absent)
unwind   : loop bound as a function of N (unwinding assertions stay ON: a too-small bound is
           reported as 'undecided', never as a pass)
"""

TOTAL = {'C01', 'C07', 'C08', 'C09', 'C10', 'C11', 'C12', 'C13', 'C14', 'C16', 'C19'}

NATIVE_BASIC = {'c_push_back', 'c_push_front', 'c_try_push_back', 'c_try_push_front', 'c_pop_back', 'c_pop_front', 'c_remove', 'c_swap',
                'c_swap_remove_back', 'c_swap_remove_front', 'c_truncate_back', 'c_truncate_front', 'c_clear', 'c_make_contiguous', 'c_get', 'c_get_mut',
                'c_as_slices', 'c_iter_views', 'c_ops_plain', 'c_zst'}
NATIVE_SIX = {'c_iter_nth', 'c_fill_spare', 'c_fill', 'c_fill_with', 'c_extend', 'c_from_iter', 'c_extend_from_slice', 'c_extend_ref', 'c_clone', 'c_into_iter',
              'c_iter_script', 'c_iter_mut_script', 'c_drain', 'c_drain_leak', 'c_drain_plain', 'c_io_write', 'c_io_read', 'c_io_bufread', 'c_hash_ord'}

Q = [0, 1, 3]
T = [0, 1, 2, 3, 4, 5]


def harness_name(e, n):
    return 'h_%s_n%d' % (e.get('name', e['fn']), n)


def H(fn, props, ns_q=Q, ns_t=T, unwind=lambda n: n + 4, **kw):
    props = props.split()
    e = dict(fn=fn, props=props, ns={'quick': ns_q, 'thorough': ns_t}, unwind=unwind)
    e.update(kw)
    # capacities at which the same contract is additionally ENUMERATED natively (bounded stand-in beyond Kani's N <= 5;
    # also the small-scope search used by the triage of lost Verus proofs)
    if 'native' in e:
        e['ns']['native'] = e.pop('native')
    elif fn in NATIVE_BASIC:
        e['ns']['native'] = [6, 7, 8, 12, 15]
    elif fn in NATIVE_SIX:
        e['ns']['native'] = [6]
    if 'untagged' not in e:
        e['untagged'] = sorted(set(props) & TOTAL)
    else:
        e['untagged'] = e['untagged'].split()
    return e


def W(fn, props, **kw):
    """watched variant of a contract: same function with the C05/C06 destructor / user-code
    preconditions armed (they are expensive for CBMC, so they get their own harness)"""
    kw.setdefault('ns_q', [1, 2])
    kw.setdefault('ns_t', [1, 2, 3])
    gen = kw.pop('gen', None)
    if gen:
        call = lambda n, g=gen: '{ enable_watch(); %s }' % g(n)
    else:
        call = lambda n, f=fn: '{ enable_watch(); %s::<%d>() }' % (f, n)
    return H(fn, props, name=fn + '_w', call=call, untagged='', native=[], **kw)


HARNESSES = [
    # single-element insertion / removal
    H('c_push_back', 'C01 C02 C03 C04 C11 C20'),
    H('c_push_front', 'C01 C02 C03 C04 C11 C20'),
    H('c_try_push_back', 'C01 C02 C03 C04 C11 C20'),
    H('c_try_push_front', 'C01 C02 C03 C04 C11 C20'),
    H('c_pop_back', 'C01 C03 C04 C11 C20'),
    H('c_pop_front', 'C01 C03 C04 C11 C20'),
    H('c_remove', 'C01 C03 C04 C11 C20'),
    H('c_swap', 'C01 C03 C04 C11 C20', ns_q=[1, 3], ns_t=[1, 2, 3, 4, 5]),
    H('c_swap_remove_back', 'C01 C03 C04 C11 C20'),
    H('c_swap_remove_front', 'C01 C03 C04 C11 C20'),
    H('c_truncate_back', 'C01 C03 C04 C11 C20'),
    H('c_truncate_front', 'C01 C03 C04 C11 C20'),
    H('c_clear', 'C01 C03 C04 C11'),
    H('c_drop_buffer', 'C03 C11'),
    # views
    H('c_make_contiguous', 'C01 C03 C04 C07 C11 C20', stubs=[('core::slice::rotate::ptr_rotate', 'ptr_rotate_model')], unwind=lambda n: n + 4, ns_q=[0, 1, 3, 5]),
    H('c_get', 'C01 C04 C07 C11 C20'),
    H('c_get_mut', 'C01 C04 C07 C11 C20'),
    H('c_as_slices', 'C04 C07 C11 C20'),
    H('c_iter_views', 'C04 C07 C08 C11'),
    # fill family
    H('c_fill_spare', 'C01 C03 C04 C11'),
    H('c_fill', 'C01 C03 C04 C11'),
    H('c_fill_with', 'C01 C03 C04 C11'),
    # bulk insertion / conversions
    H('c_extend', 'C01 C03 C04 C11 C12', unwind=lambda n: n + 5),
    H('c_from_iter', 'C03 C11 C12', unwind=lambda n: n + 5),
    H('c_extend_ref', 'C01 C11 C12', call=lambda n: 'c_extend_ref::<%d, %d>()' % (n, n + 2), unwind=lambda n: n + 5),
    H('c_extend_from_slice', 'C01 C03 C04 C11', call=lambda n: 'c_extend_from_slice::<%d, %d>()' % (n, n + 2), unwind=lambda n: n + 5),
    H('c_new', 'C11 C12'),
    H('c_boxed', 'C12', cfg='feature = "alloc"', ns_q=[0, 3], ns_t=[0, 1, 3]),
    H('c_clone', 'C03 C04 C11 C12'),
    H('c_clone_from', 'C03 C04 C11 C12', ns_q=[0, 1, 2], ns_t=[0, 1, 2, 3, 4]),
    H('c_to_vec', 'C03 C04 C07 C12', cfg='feature = "alloc"', ns_q=[0, 2], ns_t=[0, 1, 2, 3]),
    H('c_into_iter', 'C03 C04 C08 C11 C12'),
]
HARNESSES += [
    # attribute-form function contracts of the index arithmetic: complete over all 64-bit arguments (no loop, no bound)
    H('fc_add_mod', 'C19 C01 C11', contract_of='crate::add_mod', call='fc_add_mod()', ns_q=[0], ns_t=[0], unwind=2, kani_only=True, untagged='C19 C11'),
    H('fc_sub_mod', 'C19 C01 C11', contract_of='crate::sub_mod', call='fc_sub_mod()', ns_q=[0], ns_t=[0], unwind=2, kani_only=True, untagged='C19 C11'),
    # iterator protocol, ranges, documented panics
    H('c_iter_script', 'C04 C07 C08 C11'),
    H('c_iter_mut_script', 'C04 C07 C08 C11'),
    H('c_iter_nth', 'C08 C09 C11', unwind=lambda n: n + 5),
    H('c_range_must_panic', 'C11', untagged='', expect_panic=True),
    H('c_index_must_panic', 'C11', untagged='', expect_panic=True),
    # drain
    H('c_drain', 'C01 C03 C04 C09 C10 C11 C20', unwind=lambda n: n + 4, ns_q=[0, 1, 3, 4]),
    H('c_drain_leak', 'C10 C11', unwind=lambda n: n + 4),
    H('c_drain_plain', 'C01 C09 C10 C11', unwind=lambda n: n + 4),
    H('c_ops_plain', 'C01 C02 C11'),
    W('c_drain', 'C05', ns_q=[1, 2], ns_t=[1, 2, 3]),
    # destructor precondition (C05) / user-code precondition (C06) variants
    W('c_truncate_back', 'C05'), W('c_truncate_front', 'C05'), W('c_clear', 'C05'), W('c_drop_buffer', 'C05'),
    W('c_fill_spare', 'C06'), W('c_fill', 'C05 C06'), W('c_fill_with', 'C05 C06'),
    W('c_extend', 'C06', unwind=lambda n: n + 5),
    W('c_extend_from_slice', 'C05 C06', gen=lambda n: 'c_extend_from_slice::<%d, %d>()' % (n, n + 2), unwind=lambda n: n + 5),
    W('c_clone', 'C06'), W('c_clone_from', 'C05 C06', ns_q=[1, 2], ns_t=[1, 2, 3]),
    W('c_to_vec', 'C06', cfg='feature = "alloc"', ns_q=[2], ns_t=[1, 2, 3]),
]
# equality / ordering / hashing over (N, M) pairs of u8 buffers
for _n, _m, _tier in [(0, 0, 'q'), (1, 2, 'q'), (2, 2, 'q'), (3, 2, 'q'), (2, 3, 'q'), (3, 3, 'q'), (0, 2, 't'), (2, 0, 't'), (1, 1, 't'), (3, 1, 't'), (1, 3, 't'), (4, 3, 't'), (3, 4, 't')]:
    HARNESSES.append(H('c_eq', 'C04 C13', name='c_eq_m%d' % _m, call='c_eq::<{N}, %d>()' % _m, untagged='C13',
                       ns_q=[_n] if _tier == 'q' else [], ns_t=[_n], unwind=lambda n, m=_m: max(n, m) + 3))
for _n, _m, _tier in [(2, 1, 'q'), (3, 2, 'q'), (3, 1, 'q'), (2, 2, 'q'), (1, 0, 't'), (3, 3, 't'), (4, 2, 't'), (4, 3, 't'), (2, 3, 't')]:
    HARNESSES.append(H('c_eq_array', 'C04 C13', name='c_eq_array_m%d' % _m, call='c_eq_array::<{N}, %d>()' % _m, untagged='C13',
                       ns_q=[_n] if _tier == 'q' else [], ns_t=[_n], unwind=lambda n, m=_m: max(n, m) + 3))
HARNESSES += [
    H('c_eq_slice', 'C04 C13', call=lambda n: 'c_eq_slice::<%d, %d>()' % (n, n + 1), untagged='C13', ns_q=[0, 2], ns_t=[0, 1, 2, 3], unwind=lambda n: n + 4),
    # c_debug (Debug output == slice's, via a byte sink) exists in verif_kani_ops.rs but is NOT run: core::fmt exhausts CBMC
    # (no result within the 600 s harness timeout even at N=0); Debug stays an assumed contract on core::fmt::DebugList.
    H('c_hash_ord', 'C04 C13', untagged='C13', ns_q=[0, 2], ns_t=[0, 1, 2, 3], unwind=lambda n: n + 4),
    # std::io
    H('c_io_write', 'C14 C04', cfg='feature = "std"', call=lambda n: 'c_io_write::<%d, %d>()' % (n, n + 2), ns_q=[0, 1, 3], ns_t=[0, 1, 2, 3, 4], unwind=lambda n: n + 5),
    H('c_io_read', 'C14 C04', cfg='feature = "std"', call=lambda n: 'c_io_read::<%d, %d>()' % (n, n + 1), ns_q=[0, 1, 3], ns_t=[0, 1, 2, 3, 4], unwind=lambda n: n + 4),
    H('c_io_bufread', 'C14 C04', cfg='feature = "std"', ns_q=[0, 1, 3], ns_t=[0, 1, 2, 3, 4], unwind=lambda n: n + 4),
    # embedded-io(-async) vs std::io
    H('c_eio_vs_std', 'C16', cfg='all(feature = "std", feature = "embedded-io")', features='--features embedded-io,embedded-io-async',
      call=lambda n: 'c_eio_vs_std::<%d, %d>()' % (n, n + 2), ns_q=[0, 1, 3], ns_t=[0, 1, 2, 3], unwind=lambda n: n + 5),
    H('c_eio_async_vs_std', 'C16', cfg='all(feature = "std", feature = "embedded-io-async")', features='--features embedded-io,embedded-io-async',
      call=lambda n: 'c_eio_async_vs_std::<%d, %d>()' % (n, n + 2), ns_q=[0, 1, 3], ns_t=[0, 1, 2, 3], unwind=lambda n: n + 5),
    H('c_eio_vs_std', 'C16', name='c_eio_only', cfg='all(feature = "std", feature = "embedded-io")', features='--features embedded-io',
      call=lambda n: 'c_eio_vs_std::<%d, %d>()' % (n, n + 2), ns_q=[3], ns_t=[0, 3], unwind=lambda n: n + 5),
    H('c_eio_async_vs_std', 'C16', name='c_eio_async_only', cfg='all(feature = "std", feature = "embedded-io-async")', features='--features embedded-io-async',
      call=lambda n: 'c_eio_async_vs_std::<%d, %d>()' % (n, n + 2), ns_q=[3], ns_t=[0, 3], unwind=lambda n: n + 5),
    # zero-sized elements
    H('c_zst', 'C03 C19 C11', ns_q=[0, 1, 3], ns_t=[0, 1, 2, 3, 4, 5], unwind=lambda n: n + 4),
]
# From<[T; M]>: (N, M) grid
for _n, _m, _tier in [(0, 0, 'q'), (0, 2, 'q'), (2, 0, 'q'), (2, 2, 'q'), (2, 3, 'q'), (3, 1, 'q'), (1, 3, 't'), (3, 3, 't'), (3, 5, 't'), (2, 5, 't'), (4, 2, 't'), (1, 1, 't')]:
    HARNESSES.append(H('c_from_array', 'C03 C11 C12', name='c_from_array_m%d' % _m, call='c_from_array::<{N}, %d>()' % _m,
                       ns_q=[_n] if _tier == 'q' else [], ns_t=[_n], unwind=lambda n, m=_m: n + m + 4))



# ---------------------------------------------------------------------------------------------
# derived variants

def _variant(base, suffix, props, **over):
    e = dict(base)
    e['name'] = base.get('name', base['fn']) + suffix
    e['props'] = props.split()
    e['untagged'] = over.pop('untagged', '').split() if isinstance(over.get('untagged', ''), str) else over.pop('untagged')
    e['ns'] = {'quick': over.pop('ns_q'), 'thorough': over.pop('ns_t')}   # (no native capacities for derived variants)
    e.update(over)
    return e


def _find(name):
    for e in HARNESSES:
        if e.get('name', e['fn']) == name:
            return e
    raise KeyError(name)


ALLOC_STUBS = [('std::alloc::alloc', 'no_alloc'), ('std::alloc::alloc_zeroed', 'no_alloc'), ('std::alloc::realloc', 'no_realloc')]

# C17: no operation allocates - the op contracts re-run with the allocator entry points stubbed to panic
_C17_OPS = ['c_push_back', 'c_push_front', 'c_try_push_back', 'c_pop_back', 'c_pop_front', 'c_remove', 'c_swap', 'c_swap_remove_back',
            'c_truncate_back', 'c_truncate_front', 'c_clear', 'c_make_contiguous', 'c_get', 'c_get_mut', 'c_as_slices', 'c_iter_views',
            'c_fill', 'c_fill_with', 'c_fill_spare', 'c_extend', 'c_from_iter', 'c_extend_from_slice', 'c_clone', 'c_clone_from', 'c_into_iter',
            'c_iter_script', 'c_iter_mut_script', 'c_drain', 'c_drain_leak', 'c_eq_m2', 'c_hash_ord', 'c_io_write', 'c_io_read', 'c_io_bufread', 'c_new']
_extra = []
for _nm in _C17_OPS:
    _b = _find(_nm)
    _n = 3 if 3 in (_b['ns']['thorough'] or []) else (2 if 2 in (_b['ns']['thorough'] or []) else (_b['ns']['thorough'] or [1])[-1])
    _stubs = list(_b.get('stubs', [])) + ALLOC_STUBS
    _extra.append(_variant(_b, '_na', 'C17', ns_q=[_n], ns_t=[_n] if _n == 3 else sorted(set([_n, 3]) & set(_b['ns']['thorough'])) or [_n], stubs=_stubs))
# positive control: boxed() MUST trip the stub, otherwise the stub is not effective
_extra.append(_variant(_find('c_boxed'), '_na', 'C17', ns_q=[3], ns_t=[3], stubs=ALLOC_STUBS, expect_tag='C17', control=True))
# C17 build half under Kani too: a few contracts with std / alloc disabled
for _nm in ['c_push_back', 'c_remove', 'c_drain', 'c_extend_from_slice']:
    _b = _find(_nm)
    _extra.append(_variant(_b, '_nostd', 'C17', ns_q=[2], ns_t=[2], features='--no-default-features', untagged=''))
    _extra.append(_variant(_b, '_alloconly', 'C17', ns_q=[], ns_t=[2], features='--no-default-features --features alloc', untagged=''))

# C18: the same contracts under `--features unstable` (Kani's nightly)
_C18_QUICK = ['c_new', 'c_from_array_m3', 'c_extend_from_slice', 'c_as_slices', 'c_make_contiguous', 'c_iter_script', 'c_iter_mut_script', 'c_drain', 'c_push_back', 'c_truncate_front']
_C18_ALL = [e.get('name', e['fn']) for e in HARNESSES if not e.get('features') and not e.get('cfg', '').count('embedded')]
for _nm in _C18_ALL:
    _b = _find(_nm)
    _t = _b['ns']['thorough'] or []
    if not _t:
        continue
    _q = []
    if _nm in _C18_QUICK:
        _q = [2] if 2 in _t else [_t[-1]]
    _tn = sorted(set(_t) & {0, 3}) or [_t[-1]]
    _props = 'C18'
    _e = _variant(_b, '_u', _props, ns_q=_q, ns_t=_tn, features='--features unstable', untagged='C18')
    if _b.get('name', '').endswith('_w') or _b.get('expect_panic') or _b.get('untagged') == []:
        # watched variants, must-panic harnesses (their untagged failures are the EXPECTED panics) and every base entry
        # that attributes nothing to untagged failures keep doing so under `unstable`
        _e['untagged'] = []
    _extra.append(_e)
# modular variants: the caller is verified against the CONTRACT of add_mod / sub_mod (stub_verified), not their bodies
for _nm in ['c_get', 'c_push_back', 'c_push_front', 'c_remove', 'c_as_slices']:
    _b = _find(_nm)
    _extra.append(_variant(_b, '_sv', ' '.join(p for p in _b['props'] if p in ('C01', 'C07', 'C19')), ns_q=[3], ns_t=[3, 5], untagged='C01 C19',
                           stub_verified=['crate::add_mod', 'crate::sub_mod'], kani_only=True))
HARNESSES += _extra

# BOUNDED STAND-IN (native execution with real injected panics; never run by Kani): unwinding paths of C05 / C06
HARNESSES += [
    H('p_destructor_panic', 'C05', native_only=True, untagged='', ns_q=[1, 2, 3], ns_t=[1, 2, 3, 4]),
    H('p_callback_panic', 'C06', native_only=True, untagged='', ns_q=[1, 2, 3], ns_t=[1, 2, 3, 4]),
    H('p_zst_huge', 'C19', native_only=True, untagged='', name='p_zst_huge_max', call='p_zst_huge::<{ usize::MAX }>()', ns_q=[0], ns_t=[0]),
    H('p_zst_huge', 'C19', native_only=True, untagged='', name='p_zst_huge_half', call='p_zst_huge::<{ usize::MAX / 2 + 2 }>()', ns_q=[0], ns_t=[0]),
    H('p_debug', 'C07 C13', native_only=True, untagged='', ns_q=[0, 1, 2, 3], ns_t=[0, 1, 2, 3, 4]),
    H('t_ops', 'C18', native_only=True, untagged='', trace=True, ns_q=[1, 2, 3], ns_t=[0, 1, 2, 3, 4]),
    H('p_destructor_panic', 'C18', name='t_destructor_panic', call='p_destructor_panic::<{N}>()', native_only=True, untagged='', trace=True, ns_q=[2, 3], ns_t=[1, 2, 3, 4], requires='t_ops'),
    H('p_callback_panic', 'C18', name='t_callback_panic', call='p_callback_panic::<{N}>()', native_only=True, untagged='', trace=True, ns_q=[2, 3], ns_t=[1, 2, 3, 4], requires='t_ops'),
    H('p_debug', 'C18', name='t_debug', call='p_debug::<{N}>()', native_only=True, untagged='', trace=True, ns_q=[3], ns_t=[2, 3, 4]),
    H('p_documented_panic', 'C11', native_only=True, untagged='', ns_q=[0, 1, 2, 3], ns_t=[0, 1, 2, 3, 4]),
]
for _n, _m in [(0, 2), (1, 3), (2, 2), (2, 4), (3, 5)]:
    HARNESSES.append(H('p_destructor_panic_owned', 'C05', name='p_destructor_panic_owned_m%d' % _m, native_only=True, untagged='',
                       call='p_destructor_panic_owned::<{N}, %d>()' % _m, ns_q=[_n], ns_t=[_n]))


# entries whose contract function is not (yet) defined in the harness module are dropped
def _defined_fns():
    import os, re
    kdir = os.environ.get('VERIF_KDIR') or os.path.join(os.path.dirname(os.path.dirname(os.path.abspath(__file__))), 'contracts', 'kani')
    names = set()
    for f in os.listdir(kdir):
        if f.endswith('.rs'):
            names.update(re.findall(r'\bfn\s+(\w+)', open(os.path.join(kdir, f)).read()))
    return names


_fns = _defined_fns()
HARNESSES = [e for e in HARNESSES if e['fn'] in _fns and (not e.get('requires') or e['requires'] in _fns)]
