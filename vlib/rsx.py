"""rsx -- a small, brace/string/comment aware Rust source extractor.

It does not parse Rust; it locates `fn` items (free, in inherent impls, in trait impls),
returns their attribute block, signature and body, and offers the handful of purely textual
body rewrites the Verus leg needs (see DESIGN.md 5.2).  Everything here is mechanical: the
same input text always gives the same output text, and anything unexpected raises
ExtractionError (which the driver reports as "undecided", never as a violation).
"""
import hashlib
import re


class ExtractionError(Exception):
    pass


def mask(src):
    """Return a string of the same length as src where the contents of comments, string
    literals and char literals are replaced by spaces (newlines kept), so brace matching and
    keyword search can be done with plain string operations."""
    out = list(src)
    i, n = 0, len(src)
    while i < n:
        c = src[i]
        if c == '/' and i + 1 < n and src[i + 1] == '/':
            j = src.find('\n', i)
            if j < 0:
                j = n
            for k in range(i, j):
                out[k] = ' '
            i = j
        elif c == '/' and i + 1 < n and src[i + 1] == '*':
            depth, j = 1, i + 2
            while j < n and depth > 0:
                if src.startswith('/*', j):
                    depth += 1
                    j += 2
                elif src.startswith('*/', j):
                    depth -= 1
                    j += 2
                else:
                    j += 1
            for k in range(i, j):
                if out[k] != '\n':
                    out[k] = ' '
            i = j
        elif c == '"' or (c == 'r' and re.match(r'r#*"', src[i:i + 8]) and not (i > 0 and (src[i - 1].isalnum() or src[i - 1] == '_'))) \
                or (c == 'b' and i + 1 < n and src[i + 1] == '"' and not (i > 0 and (src[i - 1].isalnum() or src[i - 1] == '_'))):
            # string literal (plain, raw or byte)
            if c == 'b':
                i += 1
                c = src[i]
            if c == 'r':
                m = re.match(r'r(#*)"', src[i:])
                hashes = m.group(1)
                start = i + len(m.group(0))
                end = src.find('"' + hashes, start)
                if end < 0:
                    raise ExtractionError('unterminated raw string')
                for k in range(start, end):
                    if out[k] != '\n':
                        out[k] = ' '
                i = end + 1 + len(hashes)
            else:
                j = i + 1
                while j < n and src[j] != '"':
                    if src[j] == '\\':
                        j += 1
                    j += 1
                for k in range(i + 1, min(j, n)):
                    if out[k] != '\n':
                        out[k] = ' '
                i = j + 1
        elif c == "'":
            # char literal or lifetime
            m = re.match(r"'(\\.[^']*|[^'\\])'", src[i:])
            if m:
                for k in range(i + 1, i + len(m.group(0)) - 1):
                    out[k] = ' '
                i += len(m.group(0))
            else:
                i += 1
        else:
            i += 1
    return ''.join(out)


def match_close(msk, i, open_c='{', close_c='}'):
    """msk[i] is open_c; return the index of the matching close_c."""
    assert msk[i] == open_c, (msk[i - 10:i + 10], open_c)
    depth = 0
    n = len(msk)
    while i < n:
        ch = msk[i]
        if ch == open_c:
            depth += 1
        elif ch == close_c:
            depth -= 1
            if depth == 0:
                return i
        i += 1
    raise ExtractionError('unbalanced %s' % open_c)


def norm_ws(s):
    return re.sub(r'\s+', ' ', s).strip()


class FnItem:
    def __init__(self):
        self.file = None
        self.impl_header = None   # normalised text of the enclosing impl header, or None
        self.owner = None         # e.g. 'CircularBuffer', 'Iter', or 'Trait for Type'
        self.name = None
        self.attrs = ''           # attribute + doc comment block preceding the fn
        self.sig = ''             # from optional `pub` to just before the body `{`
        self.body = ''            # text between the body braces (exclusive)
        self.line_start = 0
        self.line_end = 0
        self.assoc_types = {}     # associated types of the enclosing trait impl: name -> type text

    @property
    def key(self):
        return (self.owner + '::' if self.owner else '') + self.name

    def sha(self):
        return hashlib.sha256((self.sig + '{' + self.body + '}').encode()).hexdigest()


_IMPL_RE = re.compile(r'\bimpl\b')
_FN_RE = re.compile(r'\bfn\s+([A-Za-z_][A-Za-z0-9_]*)')


def _owner_of(header):
    """header: normalised text between `impl` and `{`."""
    h = header
    # strip leading generics
    if h.startswith('<'):
        depth = 0
        for k, ch in enumerate(h):
            if ch == '<':
                depth += 1
            elif ch == '>':
                depth -= 1
                if depth == 0:
                    h = h[k + 1:].strip()
                    break
    h = re.split(r'\bwhere\b', h)[0].strip()

    def base(t):
        t = t.strip()
        t = re.sub(r"^&\s*('\w+\s+)?(mut\s+)?", '&', t)
        m = re.match(r'(&?[A-Za-z_:][A-Za-z0-9_:]*)', t)
        return m.group(1) if m else t
    if ' for ' in h:
        tr, ty = h.split(' for ', 1)
        return '%s for %s' % (norm_ws(tr), base(ty)), True
    return base(h), False


def _first_brace_or_semi(msk, lo, hi):
    """first `{` and first `;` at ()/[] depth 0 in msk[lo:hi] (-1 if absent)"""
    depth, b, semi = 0, -1, -1
    for k in range(lo, hi):
        ch = msk[k]
        if ch in '([':
            depth += 1
        elif ch in ')]':
            depth -= 1
        elif depth == 0:
            if ch == '{' and b < 0:
                b = k
                break
            if ch == ';' and semi < 0:
                semi = k
                break
    return b, semi


def index_file(path, relname):
    """Return (src, list of FnItem) for every fn at module level or directly inside an impl."""
    src = open(path).read()
    msk = mask(src)
    items = []

    def scan(lo, hi, impl_header, owner, assoc=None):
        i = lo
        while i < hi:
            mi = _IMPL_RE.search(msk, i, hi) if impl_header is None else None
            mf = _FN_RE.search(msk, i, hi)
            # skip `mod x { ... }` blocks conservatively: treated like any other brace block
            cand = [m for m in (mi, mf) if m]
            if not cand:
                return
            m = min(cand, key=lambda x: x.start())
            if m is mi:
                b, semi = _first_brace_or_semi(msk, m.end(), hi)
                if b < 0 or (0 <= semi < b):
                    i = m.end()
                    continue
                e = match_close(msk, b)
                header = norm_ws(src[m.end():b])
                own, _ = _owner_of(header)
                assoc_types = dict((m2.group(1), norm_ws(m2.group(2))) for m2 in re.finditer(r'\btype\s+(\w+)\s*=\s*([^;]+);', msk[b + 1:e]))
                scan(b + 1, e, 'impl' + ('' if header.startswith('<') else ' ') + header, own, assoc_types)
                i = e + 1
            else:
                # a fn: find its body or `;`
                # signature start: walk back over qualifiers on the same item
                s = m.start()
                pre = msk[max(lo, s - 80):s]
                q = re.search(r'((pub(\s*\([^)]*\))?\s+)?((const|unsafe|async|extern\s+"[^"]*")\s+)*)$', pre)
                sig_start = s - len(q.group(1)) if q else s
                # parameters
                p = msk.find('(', m.end(), hi)
                # generics may contain parens only in Fn bounds; locate '(' at angle depth 0
                k, depth = m.end(), 0
                while k < hi:
                    ch = msk[k]
                    if ch == '<':
                        depth += 1
                    elif ch == '>' and msk[k - 1] != '-':
                        depth -= 1
                    elif ch == '(' and depth == 0:
                        p = k
                        break
                    k += 1
                pe = match_close(msk, p, '(', ')')
                b, semi = _first_brace_or_semi(msk, pe + 1, hi)
                if b < 0 or (0 <= semi < b):
                    i = (semi if semi >= 0 else pe) + 1
                    continue
                e = match_close(msk, b)
                it = FnItem()
                it.file = relname
                it.impl_header = impl_header
                it.owner = owner
                it.name = m.group(1)
                it.assoc_types = dict(assoc or {})
                # attributes/doc comments directly above
                a = sig_start
                lines_before = src[:a].split('\n')
                # walk upward over lines that are attributes, doc comments or blank-free
                idx = len(lines_before) - 2
                attr_start = a - len(lines_before[-1])
                while idx >= 0:
                    ln = lines_before[idx].strip()
                    if ln.startswith('#[') or ln.startswith('///') or ln.startswith('//'):
                        attr_start -= len(lines_before[idx]) + 1
                        idx -= 1
                    else:
                        break
                it.attrs = src[attr_start:sig_start]
                it.sig = src[sig_start:b]
                it.body = src[b + 1:e]
                it.line_start = src.count('\n', 0, sig_start) + 1
                it.line_end = src.count('\n', 0, e) + 1
                items.append(it)
                i = e + 1

    scan(0, len(src), None, None)
    # of cfg(feature = "unstable") alternatives keep the stable one
    items = [it for it in items if not re.search(r'#\[cfg\(feature\s*=\s*"unstable"\)\]', it.attrs)]
    return src, items


def split_sig(sig):
    """Split a signature (text before the body brace) into
    (qualifiers_and_name_and_generics_and_params, ret_type or None, where_clause or '')."""
    msk = mask(sig)
    m = _FN_RE.search(msk)
    k, depth, p = m.end(), 0, -1
    while k < len(msk):
        ch = msk[k]
        if ch == '<':
            depth += 1
        elif ch == '>' and msk[k - 1] != '-':
            depth -= 1
        elif ch == '(' and depth == 0:
            p = k
            break
        k += 1
    pe = match_close(msk, p, '(', ')')
    head = sig[:pe + 1]
    rest = sig[pe + 1:]
    rmsk = msk[pe + 1:]
    w = re.search(r'\bwhere\b', rmsk)
    where = ''
    if w:
        where = rest[w.start():].strip()
        rest = rest[:w.start()]
    rest = rest.strip()
    ret = None
    if rest.startswith('->'):
        ret = rest[2:].strip()
    elif rest:
        raise ExtractionError('unexpected signature tail: %r' % rest)
    return head, ret, where


def strip_visibility(head):
    return re.sub(r'^\s*pub(\s*\([^)]*\))?\s+', '', head)


# ---------------------------------------------------------------------------------------------
# body rewrites

def _split_args(argtext):
    """split a macro/call argument list at top-level commas"""
    msk = mask(argtext)
    parts, depth, last = [], 0, 0
    for k, ch in enumerate(msk):
        if ch in '([{':
            depth += 1
        elif ch in ')]}':
            depth -= 1
        elif ch == ',' and depth == 0:
            parts.append(argtext[last:k])
            last = k + 1
    tail = argtext[last:]
    if tail.strip():
        parts.append(tail)
    return [p.strip() for p in parts]


def _stmt_end(msk, i):
    """i is the start of a statement/item (after an attribute).  Return index one past its end."""
    j = i
    while msk[j].isspace():
        j += 1
    if msk[j] == '{':
        return match_close(msk, j) + 1
    if re.match(r'(pub\s+)?(unsafe\s+)?(const\s+)?(fn|struct|impl|enum)\b', msk[j:]):
        b = msk.find('{', j)
        s = msk.find(';', j)
        if s >= 0 and (b < 0 or s < b):
            return s + 1
        return match_close(msk, b) + 1
    depth = 0
    k = j
    while k < len(msk):
        ch = msk[k]
        if ch in '([{':
            depth += 1
        elif ch in ')]}':
            if depth == 0:
                return k      # end of enclosing block: attribute on a tail expression
            depth -= 1
        elif ch == ';' and depth == 0:
            return k + 1
        k += 1
    return k


def resolve_cfg_unstable(body, log):
    """Keep the `#[cfg(not(feature = "unstable"))]` alternative, drop the
    `#[cfg(feature = "unstable")]` one (attribute + the statement/block/item it guards)."""
    while True:
        msk = mask(body)
        m = re.search(r'#\[cfg\((not\()?feature\s*=\s*"unstable"\)?\)\]', body)
        # make sure the match is in code, not in a comment
        while m and msk[m.start()] != '#':
            m = re.search(r'#\[cfg\((not\()?feature\s*=\s*"unstable"\)?\)\]', body[m.end():])
            if m:
                raise ExtractionError('cfg attribute inside comment handling not supported')
        if not m:
            return body
        end = _stmt_end(msk, m.end())
        if m.group(1):   # not(unstable): keep the statement, drop the attribute
            body = body[:m.start()] + body[m.end():]
            log.append('cfg(not(unstable)): attribute removed, guarded code kept')
        else:
            body = body[:m.start()] + body[end:]
            log.append('cfg(unstable): attribute and guarded code dropped')


def hoist_nested_items(body, log):
    """R3: remove nested `fn`/`struct`/`impl` items at statement level of a body.
    Returns (new_body, [names of removed fns], [removed item texts])."""
    removed_fns, removed = [], []
    while True:
        msk = mask(body)
        found = None
        depth = 0
        k = 0
        while k < len(msk):
            ch = msk[k]
            if ch == '{':
                depth += 1
            elif ch == '}':
                depth -= 1
            elif depth == 0:
                m = re.match(r'(fn\s+(\w+)|struct\s+(\w+)|impl\b)', msk[k:])
                if m and (k == 0 or not (msk[k - 1].isalnum() or msk[k - 1] == '_')):
                    found = (k, m)
                    break
            k += 1
        if not found:
            return body, removed_fns, removed
        k, m = found
        # include preceding attribute lines
        start = k
        end = _stmt_end(msk, k)
        text = body[start:end]
        removed.append(text)
        if m.group(2):
            removed_fns.append(m.group(2))
        log.append('R3: nested item `%s` hoisted out of the body' % norm_ws(m.group(0)))
        body = body[:start] + body[end:]


def rewrite_ptr_copy(body, log):
    """R1: `let ptr = self.items.as_mut_ptr();` + `ptr::copy(ptr[.add(A)]*, ptr[.add(B)]*, L)`
    -> `array_copy_within(&mut self.items, A, B, L)`"""
    m = re.search(r'let\s+(\w+)\s*=\s*self\.items\.as_mut_ptr\(\)\s*;', body)
    if not m:
        return body
    var = m.group(1)
    body = body[:m.start()] + body[m.end():]
    log.append('R1: `let %s = self.items.as_mut_ptr();` removed' % var)

    def offs(expr):
        e = expr.strip()
        if not e.startswith(var):
            raise ExtractionError('R1: pointer expression %r does not start with %s' % (expr, var))
        e = e[len(var):]
        terms = []
        while e:
            mm = re.match(r'\s*\.add\(', e)
            if not mm:
                raise ExtractionError('R1: unsupported pointer expression %r' % expr)
            close = match_close(e, mm.end() - 1, '(', ')')
            terms.append(e[mm.end():close].strip())
            e = e[close + 1:]
        if not terms:
            return '0'
        return ' + '.join(t if re.match(r'^[\w.]+$', t) else '(%s)' % t for t in terms)

    while True:
        mm = re.search(r'\bptr::copy\(', body)
        if not mm:
            break
        close = match_close(mask(body), mm.end() - 1, '(', ')')
        args = _split_args(body[mm.end():close])
        if len(args) != 3:
            raise ExtractionError('R1: ptr::copy with %d args' % len(args))
        new = 'array_copy_within(&mut self.items, %s, %s, %s)' % (offs(args[0]), offs(args[1]), args[2])
        log.append('R1: `%s` -> `%s`' % (norm_ws(body[mm.start():close + 1]), new))
        body = body[:mm.start()] + new + body[close + 1:]
    if re.search(r'\b%s\b' % var, mask(body)):
        raise ExtractionError('R1: raw pointer %s still used after rewrite' % var)
    return body


def rewrite_swap(body, log):
    """R2"""
    pat = re.compile(r'ptr::swap_nonoverlapping\(\s*&mut self\.items\[(\w+)\]\s*,\s*&mut self\.items\[(\w+)\]\s*,\s*1\s*\)')
    def rep(m):
        new = 'array_swap(&mut self.items, %s, %s)' % (m.group(1), m.group(2))
        log.append('R2: `%s` -> `%s`' % (norm_ws(m.group(0)), new))
        return new
    return pat.sub(rep, body)


def rewrite_split_at_mut(body, log):
    """R8: `self.items.split_at_mut(X)` / `buf.items.split_at_mut(X)` (array auto-unsized to a slice; vstd does
    not relate the final array to the final halves) -> `array_split_at_mut(&mut self.items, X)`"""
    pat = re.compile(r'\b(self|buf)\.items\.split_at_mut\(')
    while True:
        m = pat.search(body)
        if not m:
            return body
        close = match_close(mask(body), m.end() - 1, '(', ')')
        arg = body[m.end():close]
        new = 'array_split_at_mut(&mut %s.items, %s)' % (m.group(1), arg.strip())
        log.append('R8: `%s` -> `%s`' % (norm_ws(body[m.start():close + 1]), new))
        body = body[:m.start()] + new + body[close + 1:]


def rewrite_assert_eq(body, log):
    """R4: debug_assert_eq!(a, b[, msg..]) -> debug_assert!(a == b)"""
    while True:
        m = re.search(r'\b(debug_assert_eq|assert_eq)!\(', body)
        if not m:
            return body
        close = match_close(mask(body), m.end() - 1, '(', ')')
        args = _split_args(body[m.end():close])
        new = '%s!(%s == %s)' % (m.group(1)[:-3], args[0], args[1])
        log.append('R4: `%s` -> `%s`' % (norm_ws(body[m.start():close + 1]), new))
        body = body[:m.start()] + new + body[close + 1:]


def rewrite_min(body, log):
    """R5: core::cmp::min(a, b) / cmp::min(a, b) -> min_usize(a, b)"""
    pat = re.compile(r'\b(?:core::|std::)?cmp::min\(')
    def rep(m):
        log.append('R5: `%s...)` -> `min_usize(...)`' % m.group(0))
        return 'min_usize('
    return pat.sub(rep, body)


def insert_loop_specs(body, loop_specs, log):
    """loop_specs: {ordinal(int, 1-based): text}.  The text is inserted between the loop header
    and the opening brace of the k-th `while`/`for`/`loop` (textual order)."""
    if not loop_specs:
        return body
    msk = mask(body)
    heads = [m for m in re.finditer(r'\b(while|for|loop)\b', msk)]
    out, last = [], 0
    used = set()
    for k, m in enumerate(heads, 1):
        if k not in loop_specs:
            continue
        # find the body brace of this loop: first '{' at paren depth 0 after the keyword
        j, depth = m.end(), 0
        while j < len(msk):
            ch = msk[j]
            if ch in '([':
                depth += 1
            elif ch in ')]':
                depth -= 1
            elif ch == '{' and depth == 0:
                break
            j += 1
        out.append(body[last:j])
        out.append('\n' + loop_specs[k] + '\n')
        last = j
        used.add(k)
    out.append(body[last:])
    missing = set(loop_specs) - used
    if missing:
        raise ExtractionError('loop ordinal(s) %s not found (function has %d loops)' % (sorted(missing), len(heads)))
    log.append('loop contracts inserted at loop ordinal(s) %s' % sorted(used))
    return ''.join(out)


def strip_doc_attrs(attrs):
    """drop doc comments and all attributes (inline, must_use, allow, cfg(feature=alloc)...)"""
    return ''
