"""Verus leg: generate the file from /repo, run Verus, classify results per property."""
import json
import os
import re
import shutil
import subprocess
import tempfile
import time

from . import verusgen
from .rsx import ExtractionError

VERIF = os.path.dirname(os.path.dirname(os.path.abspath(__file__)))
TEMPLATES = [os.path.join(VERIF, 'contracts', 'verus', f) for f in ('lib.vt', 'extend.vt', 'iter.vt', 'drain.vt', 'tail.vt')]
RLIMIT = 60

# extend.vt (extend_from_slice + slices_uninit_mut, ~30-50 s of solver time) is only generated for the properties
# that have clauses or built-in obligations in it
EXTEND_PROPS = {'C01', 'C03', 'C04', 'C11', 'C14', 'C19'}


def templates_for(prop):
    if prop in EXTEND_PROPS:
        return list(TEMPLATES)
    return [t for t in TEMPLATES if not t.endswith('extend.vt')]

# built-in obligation classes -> properties they serve
BUILTIN_CLASSES = [
    (re.compile(r'arithmetic underflow/overflow|possible overflow|underflow'), ['C11', 'C19'], 'arithmetic overflow/underflow freedom'),
    (re.compile(r'division by zero'), ['C11', 'C19'], 'division by zero freedom'),
    (re.compile(r'index out of bounds|slice index|out of bounds|range'), ['C11', 'C19'], 'bounds'),
    (re.compile(r'assertion failed|assert'), ['C11'], 'crate assert!/debug_assert! never fires'),
    (re.compile(r'decreases|termination|loop'), ['C11'], 'termination / loop invariant'),
]

# callee name fragments whose precondition is an initialisation obligation (C04)
INIT_CALLEES = re.compile(r'assume_init_ref|assume_init_mut|assume_init_read|slice_assume_init|drop_range')

VIOLATION_MSGS = re.compile(
    r'postcondition not satisfied|precondition not satisfied|assertion failed|invariant not satisfied'
    r'|possible arithmetic underflow/overflow|possible division by zero|decreases not satisfied'
    r'|index out of bounds|fails to satisfy|unreachable|might not be allowed|not satisfied')
UNDECIDED_MSGS = re.compile(r'Resource limit|rlimit|timed? ?out|could not finish|cancelled')


class VerusOutcome:
    def __init__(self):
        self.status = 'ok'          # ok | undecided
        self.reason = ''
        self.failures = []          # dicts: fn, msg, tags, name, line, src_line, rendered, klass
        self.functions = {}         # verus fn name -> dict(time_ms, rlimit, success)
        self.obligations = {}       # fn key -> list of (label, tags)
        self.verified = 0
        self.errors = 0
        self.gen = None
        self.cmd = ''
        self.wall_s = 0.0
        self.smt_ms = 0
        self.trusted_scan = []
        self.version = ''
        self.raw = ''


def _classify_builtin(msg):
    for rx, props, name in BUILTIN_CLASSES:
        if rx.search(msg):
            return props, name
    return ['C11'], 'other built-in obligation'


def _split_clauses(spec_lines):
    """Return list of (kind, tags, name) for every top-level comma separated clause of the
    requires/ensures sections, in textual order."""
    text = '\n'.join(spec_lines)
    out = []
    kind = None
    tags, name = None, None
    depth = 0
    buf = ''
    i = 0
    tok = re.compile(r'/\*\[([A-Z0-9, ]+)\]\s*([^*]*)\*/|\b(requires|ensures|decreases|recommends)\b|[(\[{]|[)\]}]|,|\|[^|]*\||.', re.S)
    # note: closures `|p: int| ...` may contain commas inside the bars; handle bars as one token
    pending_tags = (None, None)
    cur_tags = (None, None)
    for m in tok.finditer(text):
        t = m.group(0)
        if m.group(1):
            pending_tags = ([x.strip() for x in m.group(1).split(',') if x.strip()], m.group(2).strip())
            continue
        if m.group(3) and depth == 0:
            if buf.strip() and kind:
                out.append((kind, cur_tags[0], cur_tags[1]))
            buf = ''
            kind = m.group(3)
            continue
        if t in '([{':
            depth += 1
        elif t in ')]}':
            depth -= 1
        if t == ',' and depth == 0:
            if buf.strip() and kind:
                out.append((kind, cur_tags[0], cur_tags[1]))
            buf = ''
            continue
        if not buf.strip() and t.strip():
            # first token of a clause: latch the tags seen so far
            if pending_tags[0]:
                cur_tags = pending_tags
                pending_tags = (None, None)
        buf += t
    if buf.strip() and kind:
        out.append((kind, cur_tags[0], cur_tags[1]))
    return out


def run(repo_src, workdir, seed=0, extra_templates=None, log_air=True, num_threads=None):
    out = VerusOutcome()
    t0 = time.time()
    try:
        gen = verusgen.generate(repo_src, (extra_templates or TEMPLATES))
    except ExtractionError as e:
        out.status = 'undecided'
        out.reason = 'extraction failure: %s' % e
        out.wall_s = time.time() - t0
        return out
    out.gen = gen
    out.trusted_scan = verusgen.scan_trusted(gen.text)
    path = os.path.join(workdir, 'cb.rs')
    open(path, 'w').write(gen.text)
    cmd = ['verus', 'cb.rs', '--rlimit', str(RLIMIT), '--multiple-errors', '50', '--output-json', '--time']
    if log_air:
        cmd += ['--log', 'air', '--log-dir', 'vlog']
    if seed:
        cmd += ['--smt-option', 'smt.random_seed=%d' % (seed % 100000), '--smt-option', 'sat.random_seed=%d' % (seed % 100000)]
    if num_threads:
        cmd += ['--num-threads', str(num_threads)]
    cmd += ['--', '--error-format=json']
    out.cmd = ' '.join(cmd)
    try:
        p = subprocess.run(cmd, cwd=workdir, capture_output=True, text=True, timeout=900)
    except subprocess.TimeoutExpired:
        out.status = 'undecided'
        out.reason = 'verus timed out after 900 s'
        out.wall_s = time.time() - t0
        return out
    out.raw = p.stderr[-20000:]
    # stdout: JSON document (possibly preceded by text)
    js = None
    so = p.stdout
    k = so.find('{')
    if k >= 0:
        try:
            js = json.loads(so[k:])
        except Exception:
            # json followed by trailing text
            try:
                dec = json.JSONDecoder()
                js, _ = dec.raw_decode(so[k:])
            except Exception:
                js = None
    diags = []
    for ln in p.stderr.split('\n'):
        ln = ln.strip()
        if ln.startswith('{') and '"$message_type"' in ln:
            try:
                diags.append(json.loads(ln))
            except Exception:
                pass
    if js is None:
        out.status = 'undecided'
        out.reason = 'verus produced no JSON result (rc=%s): %s' % (p.returncode, p.stderr[-400:])
        out.wall_s = time.time() - t0
        return out
    vr = js.get('verification-results', {})
    out.verified = vr.get('verified', 0)
    out.errors = vr.get('errors', 0)
    out.version = js.get('verus', {}).get('version', '') or js.get('times-ms', {}).get('verus-build', {}).get('version', '')
    try:
        for mod in js['times-ms']['smt']['smt-run-module-times']:
            for f in mod.get('function-breakdown', []):
                nm = f['function'].split('::', 1)[1] if '::' in f['function'] else f['function']
                out.functions[nm] = dict(time_ms=f.get('time', 0), rlimit=f.get('rlimit', 0), success=f.get('success', False), mode=f.get('mode:', ''))
        out.smt_ms = js['times-ms']['smt'].get('smt-run', 0)
    except Exception:
        pass
    if vr.get('encountered-vir-error') or (not vr.get('success') and out.errors == 0 and out.verified == 0):
        # type / mode / syntax error: nothing was verified
        msgs = [d.get('message', '') for d in diags if d.get('level') == 'error']
        out.status = 'undecided'
        out.reason = 'verus rejected the generated file before verification: ' + ' | '.join(msgs[:3])[:500]
        out.wall_s = time.time() - t0
        return out
    # classify error diagnostics
    lm = gen.linemap
    for d in diags:
        if d.get('level') != 'error':
            continue
        msg = d.get('message', '')
        if msg.startswith('aborting due to'):
            continue
        spans = d.get('spans', [])
        prim = [s for s in spans if s.get('is_primary')]
        sec = [s for s in spans if not s.get('is_primary')]
        info = {}
        tags, name = None, None
        fnkey = None
        src_line = None
        line = prim[0]['line_start'] if prim else 0
        # which function does the failure belong to: the line of the primary span, or of a body span
        for s in prim + sec:
            ls = s['line_start']
            if 1 <= ls <= len(lm):
                e = lm[ls - 1]
                if e.get('fn') and fnkey is None and e.get('section') in ('body', 'head', 'spec', 'sig') or (e.get('section') or '').startswith('loop'):
                    fnkey = fnkey or e.get('fn')
                if e.get('src_line') and src_line is None and e.get('section') == 'body':
                    src_line = e.get('src_line')
        # tags: from a span that sits on a spec / loop-contract / template line
        for s in spans:
            ls = s['line_start']
            if 1 <= ls <= len(lm):
                e = lm[ls - 1]
                sect = e.get('section') or ''
                if sect == 'spec' or sect.startswith('loop') or sect == 'template':
                    # prefer a tag written on the very line (there may be several on one spec line: take the
                    # last one that starts before the span column)
                    lt = None
                    text_line = gen.text.split('\n')[ls - 1]
                    col = s.get('column_start', 1) - 1
                    for m in verusgen.TAG_RE.finditer(text_line):
                        if m.start() <= col:
                            lt = ([t.strip() for t in m.group(1).split(',') if t.strip()], m.group(2).strip())
                    if lt:
                        tags, name = lt
                    elif e.get('tags'):
                        tags, name = e.get('tags'), e.get('name')
                    if tags:
                        break
        klass = 'contract'
        if UNDECIDED_MSGS.search(msg):
            klass = 'undecided'
        elif not tags and any(1 <= sp['line_start'] <= len(lm) and ((lm[sp['line_start'] - 1].get('section') or '') == 'spec' or (lm[sp['line_start'] - 1].get('section') or '').startswith('loop')) for sp in spans):
            # an untagged (auxiliary) clause of a contract in the template: serves the sequence semantics
            tags, name = ['C01'], 'auxiliary contract clause (untagged)'
        elif not tags:
            # built-in obligation or precondition of a vstd / std function
            rendered = d.get('rendered', '')
            if 'precondition not satisfied' in msg and INIT_CALLEES.search(rendered):
                tags, name = ['C04'], 'initialised-slot precondition of an assume_init primitive'
            else:
                tags, name = _classify_builtin(msg + ' ' + ' '.join((s.get('label') or '') for s in spans))
            klass = 'builtin'
        out.failures.append(dict(fn=fnkey, msg=msg, tags=tags or [], name=name or '', line=line, src_line=src_line,
                                 rendered=d.get('rendered', '')[:3000], klass=klass))
    # functions that failed because of resource limits are undecided, not violations
    # obligations from the AIR log
    if log_air:
        air = os.path.join(workdir, 'vlog', 'root.air')
        if os.path.exists(air):
            out.obligations = _count_obligations(open(air).read(), gen)
        shutil.rmtree(os.path.join(workdir, 'vlog'), ignore_errors=True)
    out.wall_s = time.time() - t0
    return out


def _count_obligations(air, gen):
    """per function (verus name) -> list of dict(label, tags, name)"""
    res = {}
    # spec clauses per function
    clauses = {}
    text_lines = gen.text.split('\n')
    by_fn = {}
    def qual(e):
        key = e['fn']
        if '::' in key:
            ty = key.rsplit('::', 1)[0].split(' for ')[-1].lstrip('&')
            return ty + '::' + e['verus_name']
        return e['verus_name']
    for idx, e in enumerate(gen.linemap):
        if e.get('section') == 'spec' and e.get('fn'):
            by_fn.setdefault(qual(e), []).append(text_lines[idx])
    for vn, lines in by_fn.items():
        clauses[vn] = _split_clauses(lines)
    cur = None
    post_idx = 0
    last_was_post = False
    for m in re.finditer(r';; Function-Def (\S+)|\(assert\s*\n\s*\(("[^)]*)\)\s*\n\s*\(([^\n]*)\)', air):
        if m.group(1):
            cur = m.group(1).split('::', 1)[1] if '::' in m.group(1) else m.group(1)
            res.setdefault(cur, [])
            post_idx = 0
            last_was_post = False
            continue
        if cur is None:
            continue
        label = m.group(2).split('"')[1]
        callee = m.group(3)
        tags, name = None, None
        if label.startswith('postcondition'):
            ens = [c for c in clauses.get(cur, []) if c[0] == 'ensures']
            if not last_was_post:
                post_idx = 0
            if ens:
                c = ens[post_idx % len(ens)]
                tags, name = c[1], c[2]
            post_idx += 1
            last_was_post = True
        else:
            last_was_post = False
            if label.startswith('precondition'):
                cal = callee.split('!')[-1].rstrip('.').split('.')[-1] if callee else ''
                cal = re.sub(r'^impl&%\d+\.', '', cal)
                reqs = []
                for ck, cl in clauses.items():
                    if ck == cal or ck.endswith('::' + cal):
                        reqs += [c for c in cl if c[0] == 'requires']
                tg = []
                for c in reqs:
                    for t in (c[1] or []):
                        if t not in tg:
                            tg.append(t)
                if INIT_CALLEES.search(callee or ''):
                    if 'C04' not in tg:
                        tg.append('C04')
                tags, name = (tg or ['C11']), 'precondition of ' + (cal or 'callee')
            else:
                tags, name = _classify_builtin(label)
        short = label.replace(' not satisfied', '').replace('possible ', '')
        res[cur].append(dict(label=short, tags=tags or ['C01'], name=name or ''))
    return res


def vacuity_check(repo_src, workdir, templates=None):
    """Every contracted, non-trusted function must FAIL an `assert(false)` placed at the start of its body.
    Returns (status, vacuous_functions, checked_count, reason)."""
    try:
        gen = verusgen.generate(repo_src, (templates or TEMPLATES), vacuity=True)
    except ExtractionError as e:
        return 'undecided', [], 0, 'extraction failure: %s' % e
    os.makedirs(workdir, exist_ok=True)
    open(os.path.join(workdir, 'vac.rs'), 'w').write(gen.text)
    cmd = ['verus', 'vac.rs', '--rlimit', '20', '--multiple-errors', '1', '--output-json', '--', '--error-format=json']
    try:
        p = subprocess.run(cmd, cwd=workdir, capture_output=True, text=True, timeout=900)
    except subprocess.TimeoutExpired:
        return 'undecided', [], 0, 'timeout'
    failed_fns = set()
    for ln in p.stderr.split('\n'):
        ln = ln.strip()
        if ln.startswith('{') and '"$message_type"' in ln:
            try:
                d = json.loads(ln)
            except Exception:
                continue
            if d.get('level') != 'error':
                continue
            for sp in d.get('spans', []):
                ls = sp['line_start']
                if 1 <= ls <= len(gen.linemap) and gen.linemap[ls - 1].get('section') == 'vacuity':
                    failed_fns.add(gen.linemap[ls - 1]['fn'])
    expected = [k for k, v in gen.functions.items() if not v.get('trusted') and not k.startswith('struct ')]
    vacuous = [k for k in expected if k not in failed_fns]
    if not failed_fns:
        return 'undecided', [], len(expected), 'vacuity run produced no diagnostics: ' + p.stderr[-300:]
    return 'ok', vacuous, len(expected), ''
