use crate::*;

impl<const N: usize, T> CircularBuffer<N, T> {
    pub(crate) fn wf(&self) -> bool {
        if N == 0 { self.size == 0 } else { self.start < N && self.size <= N }
    }
}

fn any_buf<const N: usize, T: kani::Arbitrary>() -> CircularBuffer<N, T> {
    let mut b = CircularBuffer::<N, T>::new();
    let start: usize = kani::any();
    let size: usize = kani::any();
    kani::assume(if N == 0 { start == 0 && size == 0 } else { start < N && size <= N });
    b.start = start;
    b.size = size;
    let mut i = 0;
    while i < size {
        let p = add_mod(start, i, N);
        b.items[p].write(kani::any());
        i += 1;
    }
    b
}

fn snapshot<const N: usize>(b: &CircularBuffer<N, u8>) -> ([u8; N], usize) {
    let mut out = [0u8; N];
    let mut i = 0;
    while i < b.len() {
        out[i] = *b.get(i).unwrap();
        i += 1;
    }
    (out, b.len())
}

#[kani::proof]
#[kani::unwind(5)]
fn push_back_n3() {
    const N: usize = 3;
    let mut b = any_buf::<N, u8>();
    let (old, old_len) = snapshot(&b);
    let x: u8 = kani::any();
    let r = b.push_back(x);
    let (new, new_len) = snapshot(&b);
    assert!(b.wf());
    if old_len == N {
        assert!(r == Some(old[0]));
        assert!(new_len == N);
        let mut i = 0;
        while i + 1 < N { assert!(new[i] == old[i + 1]); i += 1; }
        assert!(new[N - 1] == x);
    } else {
        assert!(r.is_none());
        assert!(new_len == old_len + 1);
        let mut i = 0;
        while i < old_len { assert!(new[i] == old[i]); i += 1; }
        assert!(new[old_len] == x);
    }
    core::mem::forget(b);
}

#[kani::proof_for_contract(CircularBuffer::<3, u8>::push_back)]
#[kani::unwind(5)]
fn c_push_back_n3() {
    let mut b = any_buf::<3, u8>();
    let x: u8 = kani::any();
    let _ = b.push_back(x);
    core::mem::forget(b);
}

pub(crate) struct Snap<const N: usize, T> { pub items: [core::mem::MaybeUninit<T>; N], pub len: usize }

/// bitwise copy of the logical contents, front to back
pub(crate) fn snap<const N: usize, T>(b: &CircularBuffer<N, T>) -> Snap<N, T> {
    let mut s = Snap { items: unsafe { core::mem::MaybeUninit::<[core::mem::MaybeUninit<T>; N]>::uninit().assume_init() }, len: b.size };
    let mut i = 0;
    while i < b.size {
        let p = add_mod(b.start, i, N);
        unsafe { core::ptr::copy_nonoverlapping(b.items[p].as_ptr(), s.items[i].as_mut_ptr(), 1); }
        i += 1;
    }
    s
}

pub(crate) fn bits_eq<T>(a: *const T, b: *const T) -> bool {
    let n = core::mem::size_of::<T>();
    let (a, b) = (a as *const u8, b as *const u8);
    let mut i = 0;
    while i < n {
        if unsafe { *a.add(i) != *b.add(i) } { return false; }
        i += 1;
    }
    true
}

pub(crate) fn elem<const N: usize, T>(b: &CircularBuffer<N, T>, i: usize) -> *const T {
    b.items[add_mod(b.start, i, N)].as_ptr()
}

pub(crate) fn seq_push_back_ok<const N: usize, T>(old: &Snap<N, T>, new: &CircularBuffer<N, T>, r: &Option<T>) -> bool {
    if N == 0 { return r.is_some() && new.size == 0; }
    let mut ok = true;
    if old.len == N {
        ok = ok && match r { Some(x) => bits_eq(x as *const T, old.items[0].as_ptr()), None => false };
        let mut i = 0;
        while i + 1 < N { ok = ok && bits_eq(elem(new, i), old.items[i + 1].as_ptr()); i += 1; }
    } else {
        ok = ok && r.is_none();
        let mut i = 0;
        while i < old.len { ok = ok && bits_eq(elem(new, i), old.items[i].as_ptr()); i += 1; }
    }
    ok
}
impl<const N: usize, T> Clone for Snap<N, T> {
    fn clone(&self) -> Self { unsafe { core::ptr::read(self) } }
}

#[kani::proof]
#[kani::stub_verified(CircularBuffer::<3, u8>::push_back)]
#[kani::unwind(5)]
fn fill_spare_modular_n3() {
    let mut b = any_buf::<3, u8>();
    let old = snap(&b);
    let v: u8 = kani::any();
    b.fill_spare(v);
    assert!(b.wf());
    assert!(b.len() == 3);
    let mut i = 0;
    while i < 3 {
        if i < old.len { assert!(bits_eq(elem(&b, i), old.items[i].as_ptr())); } else { assert!(unsafe { *elem(&b, i) } == v); }
        i += 1;
    }
    core::mem::forget(b);
}

impl<const N: usize, T: kani::Arbitrary> kani::Arbitrary for CircularBuffer<N, T> {
    fn any() -> Self { any_buf::<N, T>() }
}
