// Contract harness module for the Kani leg (and, under --cfg verif_replay, for the native
// replay search).  It is copied into a SCRATCH copy of /repo/src on every run and compiled as
// `mod verif_kani` of the crate itself, so it can put the buffer in an arbitrary well-formed
// layout (private fields `size`, `start`, `items`) and read the backing array directly.
//
// Vocabulary (the same as in contracts/verus/lib.vt):
//   wf(b)        representation invariant
//   ids_of(b)    abstraction function: logical contents front-to-back, read from the array
//   Seq          the abstract capped deque the property statements talk about
//   ledger       per-token creation / destruction accounting (C03, C05, C06, C09, C12)
//
// Every assertion message starts with the ids of the properties it serves: "[C01,C02] ...".
#![allow(unreachable_pub, static_mut_refs, dead_code, unused_variables, unused_mut, unused_imports, unused_qualifications, unexpected_cfgs, clippy::all)]

use crate::*;
use core::mem::MaybeUninit;
use core::ops::Bound;

// ---------------------------------------------------------------------------------------------
// check!(cond, "msg"): a contract clause.  Under Kani every clause sits behind its own
// nondeterministic guard, so a failing clause does not make the clauses after it unreachable
// (Kani assumes an assertion after checking it) - each tagged clause is decided independently.
// In the native replay build a failing clause is recorded and reported at the end of the harness.

#[cfg(kani)]
macro_rules! check { ($c:expr, $m:literal) => { { let verif_cond: bool = $c; if kani::any::<bool>() { assert!(verif_cond, $m); } } } }
#[cfg(not(kani))]
macro_rules! check { ($c:expr, $m:literal) => { { let verif_cond: bool = $c; if !verif_cond { nd::record_failure($m); } } } }

// ---------------------------------------------------------------------------------------------
// nondeterminism facade

#[cfg(kani)]
pub(crate) mod nd {
    pub fn any_usize() -> usize { kani::any() }
    pub fn any_u8() -> u8 { kani::any() }
    pub fn any_bool() -> bool { kani::any() }
    pub fn assume(c: bool) { kani::assume(c) }
    /// value in lo..=hi
    pub fn usize_in(lo: usize, hi: usize) -> usize { let v: usize = kani::any(); kani::assume(v >= lo && v <= hi); v }
    pub fn reached() { kani::cover!(true, "harness end reachable"); }
}

#[cfg(not(kani))]
pub(crate) mod nd {
    //! odometer: every call draws the next digit of the current choice vector; the runner
    //! (replay_main) enumerates all vectors in lexicographic order.
    use std::cell::RefCell;
    thread_local! {
        pub static CHOICES: RefCell<Vec<(usize, usize)>> = RefCell::new(Vec::new()); // (chosen index, domain size)
        pub static POS: RefCell<usize> = RefCell::new(0);
        pub static LOG: RefCell<Vec<String>> = RefCell::new(Vec::new());
        pub static FAILED: RefCell<Vec<String>> = RefCell::new(Vec::new());
    }
    pub fn record_failure(m: &str) { FAILED.with(|f| f.borrow_mut().push(m.to_string())); }
    thread_local! { pub static TRACE: RefCell<Vec<String>> = RefCell::new(Vec::new()); }
    /// observable event of the current run (results, contents, destructor / clone order, Debug output):
    /// compared between two builds of the crate by the C18 differential stand-in
    pub fn trace(s: String) { TRACE.with(|t| t.borrow_mut().push(s)); }
    pub fn take_trace() -> Vec<String> { TRACE.with(|t| core::mem::take(&mut *t.borrow_mut())) }
    pub fn take_failures() -> Vec<String> { FAILED.with(|f| core::mem::take(&mut *f.borrow_mut())) }
    pub struct Rejected;
    fn pick(n: usize) -> usize {
        assert!(n > 0);
        let pos = POS.with(|p| { let v = *p.borrow(); *p.borrow_mut() = v + 1; v });
        CHOICES.with(|c| {
            let mut c = c.borrow_mut();
            if pos < c.len() { c[pos].1 = n; if c[pos].0 >= n { c[pos].0 = n - 1; } c[pos].0 } else { c.push((0, n)); 0 }
        })
    }
    const WIDE: [usize; 14] = [0, 1, 2, 3, 4, 5, 6, 7, 8, 9, usize::MAX / 2, usize::MAX / 2 + 1, usize::MAX - 1, usize::MAX];
    pub fn any_usize() -> usize { let v = WIDE[pick(WIDE.len())]; LOG.with(|l| l.borrow_mut().push(format!("usize={}", v))); v }
    pub fn any_u8() -> u8 { const D: [u8; 4] = [0, 1, 2, 255]; let v = D[pick(4)]; LOG.with(|l| l.borrow_mut().push(format!("u8={}", v))); v }
    pub fn any_bool() -> bool { let v = pick(2) == 1; LOG.with(|l| l.borrow_mut().push(format!("bool={}", v))); v }
    pub fn assume(c: bool) { if !c { std::panic::panic_any(Rejected); } }
    pub fn usize_in(lo: usize, hi: usize) -> usize {
        if hi < lo { std::panic::panic_any(Rejected); }
        let span = hi - lo;
        let v = if span < 64 { lo + pick(span + 1) } else { let w = any_usize(); if w < lo || w > hi { std::panic::panic_any(Rejected); } return w; };
        LOG.with(|l| l.borrow_mut().push(format!("usize_in({},{})={}", lo, hi, v)));
        v
    }
    pub fn reached() {}
}

// ---------------------------------------------------------------------------------------------
// loop-free helpers: every helper below is straight-line code (macro-unrolled with constant
// indices), so the #[kani::unwind] bound of a harness only has to cover the loops of the crate
// itself and the harness' own script loop.

macro_rules! unroll8 { ($i:ident, $body:block) => { { let $i: usize = 0; $body } { let $i: usize = 1; $body } { let $i: usize = 2; $body } { let $i: usize = 3; $body } { let $i: usize = 4; $body } { let $i: usize = 5; $body } { let $i: usize = 6; $body } { let $i: usize = 7; $body } } }
macro_rules! unroll16 { ($i:ident, $body:block) => { { let $i: usize = 0; $body } { let $i: usize = 1; $body } { let $i: usize = 2; $body } { let $i: usize = 3; $body } { let $i: usize = 4; $body } { let $i: usize = 5; $body } { let $i: usize = 6; $body } { let $i: usize = 7; $body } { let $i: usize = 8; $body } { let $i: usize = 9; $body } { let $i: usize = 10; $body } { let $i: usize = 11; $body } { let $i: usize = 12; $body } { let $i: usize = 13; $body } { let $i: usize = 14; $body } { let $i: usize = 15; $body } } }
macro_rules! unroll32 { ($i:ident, $body:block) => { { let $i: usize = 0; $body } { let $i: usize = 1; $body } { let $i: usize = 2; $body } { let $i: usize = 3; $body } { let $i: usize = 4; $body } { let $i: usize = 5; $body } { let $i: usize = 6; $body } { let $i: usize = 7; $body } { let $i: usize = 8; $body } { let $i: usize = 9; $body } { let $i: usize = 10; $body } { let $i: usize = 11; $body } { let $i: usize = 12; $body } { let $i: usize = 13; $body } { let $i: usize = 14; $body } { let $i: usize = 15; $body } { let $i: usize = 16; $body } { let $i: usize = 17; $body } { let $i: usize = 18; $body } { let $i: usize = 19; $body } { let $i: usize = 20; $body } { let $i: usize = 21; $body } { let $i: usize = 22; $body } { let $i: usize = 23; $body } { let $i: usize = 24; $body } { let $i: usize = 25; $body } { let $i: usize = 26; $body } { let $i: usize = 27; $body } { let $i: usize = 28; $body } { let $i: usize = 29; $body } { let $i: usize = 30; $body } { let $i: usize = 31; $body } } }

// ---------------------------------------------------------------------------------------------
// abstract sequence

pub(crate) const CAP: usize = 16;

#[derive(Clone, Copy)]
pub(crate) struct Seq { pub a: [u8; CAP], pub len: usize }

impl Seq {
    pub fn new() -> Seq { Seq { a: [0; CAP], len: 0 } }
    pub fn get(&self, i: usize) -> Option<u8> { if i < self.len { Some(self.a[i]) } else { None } }
    pub fn push(&mut self, x: u8) { assert!(self.len < CAP, "model sequence capacity exceeded"); self.a[self.len] = x; self.len += 1; }
    pub fn pop_back(&mut self) -> Option<u8> { if self.len == 0 { None } else { self.len -= 1; Some(self.a[self.len]) } }
    pub fn pop_front(&mut self) -> Option<u8> { self.remove(0) }
    pub fn push_front(&mut self, x: u8) { self.insert(0, x) }
    pub fn insert(&mut self, at: usize, x: u8) {
        assert!(self.len < CAP && at <= self.len, "model sequence capacity exceeded");
        let mut i = self.len;
        while i > at { self.a[i] = self.a[i - 1]; i -= 1; }
        self.a[at] = x; self.len += 1;
    }
    pub fn remove(&mut self, at: usize) -> Option<u8> {
        if at >= self.len { return None; }
        let x = self.a[at];
        let mut i = at;
        while i + 1 < self.len { self.a[i] = self.a[i + 1]; i += 1; }
        self.len -= 1;
        Some(x)
    }
    /// keep only the last n elements
    pub fn keep_last(&mut self, n: usize) {
        if self.len > n {
            let d = self.len - n;
            let old = self.a;
            unroll16!(i, { if i < n { self.a[i] = old[(i + d) % CAP]; } });
            self.len = n;
        }
    }
    pub fn keep_first(&mut self, n: usize) { if self.len > n { self.len = n; } }
    pub fn eq(&self, o: &Seq) -> bool {
        if self.len != o.len { return false; }
        let mut ok = true;
        let mut i = 0;
        while i < self.len { if self.a[i] != o.a[i] { ok = false; } i += 1; }
        ok
    }
    pub fn contains(&self, x: u8) -> bool { let mut f = false; unroll16!(i, { if i < self.len && self.a[i] == x { f = true; } }); f }
    pub fn swap(&mut self, i: usize, j: usize) { let t = self.a[i]; self.a[i] = self.a[j]; self.a[j] = t; }
    pub fn append(&mut self, o: &Seq) { unroll16!(i, { if i < o.len { self.push(o.a[i]); } }); }
    /// abstract capped deque: append at the back of a buffer of capacity n
    pub fn push_back_capped(&mut self, x: u8, n: usize) -> Option<u8> {
        if n == 0 { return Some(x); }
        let ev = if self.len == n { self.pop_front() } else { None };
        self.push(x); ev
    }
    pub fn push_front_capped(&mut self, x: u8, n: usize) -> Option<u8> {
        if n == 0 { return Some(x); }
        let ev = if self.len == n { self.pop_back() } else { None };
        self.push_front(x); ev
    }
}

// ---------------------------------------------------------------------------------------------
// ledger tokens

pub(crate) const MAXID: usize = 32;
pub(crate) static mut DROPS: [u8; MAXID] = [0; MAXID];
pub(crate) static mut PARENT: [u8; MAXID] = [255; MAXID];
pub(crate) static mut NEXT: usize = 0;
/// watched buffer (destructor / callback preconditions, C05 C06)
static mut W_ITEMS: *const Tok = core::ptr::null();
static mut W_N: usize = 0;
static mut W_START: *const usize = core::ptr::null();
static mut W_SIZE: *const usize = core::ptr::null();
/// number of user-code entry points (clone / closure / iterator / eq) reached
pub(crate) static mut CALLBACKS: usize = 0;
/// native replay only: the k-th destructor / callback entry panics (0 = never)
pub(crate) static mut PANIC_AT_DROP: usize = 0;
pub(crate) static mut PANIC_AT_CALLBACK: usize = 0;
pub(crate) static mut DROP_ENTRIES: usize = 0;
/// native bounded stand-in for the unwinding paths (C05/C06): real panics are injected and caught
pub(crate) static mut SCENARIO: bool = false;

pub(crate) fn ledger_reset() {
    unsafe {
        DROPS = [0; MAXID]; PARENT = [255; MAXID]; NEXT = 0; CALLBACKS = 0; DROP_ENTRIES = 0; WATCH_ON = false;
        SCENARIO = false; PANIC_AT_DROP = 0; PANIC_AT_CALLBACK = 0;
        W_N = 0; W_ITEMS = core::ptr::null(); W_START = core::ptr::null(); W_SIZE = core::ptr::null();
    }
}

pub(crate) struct Tok { pub id: u8 }

impl Tok {
    pub fn fresh() -> Tok { unsafe { let id = NEXT; NEXT += 1; assert!(id < MAXID, "ledger table exhausted"); Tok { id: id as u8 } } }
}

pub(crate) fn drops(id: usize) -> u8 { unsafe { DROPS[id] } }
pub(crate) fn next_id() -> usize { unsafe { NEXT } }
pub(crate) fn parent(id: usize) -> u8 { unsafe { PARENT[id] } }

/// committed-window predicate of the watched buffer: representation invariant holds and every
/// slot of the window holds a live (not yet destroyed) token with a valid id.
fn watched_window_ok() -> bool {
    unsafe {
        if W_N == 0 { return true; }
        let start = *W_START; let size = *W_SIZE;
        if !(start < W_N && size <= W_N) { return false; }
        let mut ok = true;
        let mut i = 0;
        while i < size {
            let mut p = start + i;
            if p >= W_N { p -= W_N; }
            let id = (*W_ITEMS.add(p)).id as usize;
            if id >= MAXID || DROPS[id] != 0 { ok = false; }
            i += 1;
        }
        ok
    }
}

/// logical index of `t` inside the watched array (usize::MAX if it is not a slot of it)
fn watched_rel(t: *const Tok) -> usize {
    unsafe {
        let off = (t as usize).wrapping_sub(W_ITEMS as usize);
        if off < W_N * core::mem::size_of::<Tok>() {
            let p = off / core::mem::size_of::<Tok>();
            let start = *W_START;
            if p >= start { p - start } else { p + W_N - start }
        } else { usize::MAX }
    }
}

impl Drop for Tok {
    fn drop(&mut self) {
        #[cfg(not(kani))]
        if unsafe { SCENARIO } {
            // panic-injection scenarios: count every destructor run (also those on the unwind path), never assert
            unsafe {
                let id = self.id as usize;
                if id >= MAXID { nd::record_failure("[C03,C04,C05,C06] destructor run on garbage (id out of range)"); return; }
                if DROPS[id] != 0 { nd::record_failure("[C03,C04,C05,C06] element destroyed twice"); }
                nd::trace(format!("d{}", id));
                DROPS[id] = DROPS[id].saturating_add(1);
                DROP_ENTRIES += 1;
                if PANIC_AT_DROP != 0 && DROP_ENTRIES == PANIC_AT_DROP && !std::thread::panicking() { panic!("injected destructor panic"); }
            }
            return;
        }
        #[cfg(not(kani))]
        if std::thread::panicking() && unsafe { REPLAY_QUIET_UNWIND } { return; }
        unsafe {
            // soft clauses (each decided on its own; a failing one does not hide the clauses of the harness)
            let id = self.id as usize;
            check!(id < MAXID, "[C03,C04,C09,C10,C12] destructor run on garbage (id out of range): a slot that holds no live element was destroyed");
            if id >= MAXID { return; }
            check!(DROPS[id] == 0, "[C03,C04,C05,C09,C10,C12] element destroyed twice (destructor run on a slot that no longer holds a live element)");
            if W_N > 0 {
                // destructor precondition (C05): the element being destroyed is outside the committed
                // window of the watched buffer, and that window is valid and all-live, so that a panic
                // raised by this destructor leaves a valid buffer and no second drop.
                let rel = watched_rel(self as *const Tok);
                check!(rel == usize::MAX || rel >= *W_SIZE, "[C05] destructor runs on an element that is still inside the buffer's committed window");
                check!(watched_window_ok(), "[C05] buffer window is not a valid all-live sequence at destructor entry");
            }
            DROP_ENTRIES += 1;
            if DROPS[id] < 200 { DROPS[id] += 1; }
            #[cfg(not(kani))]
            if PANIC_AT_DROP != 0 && DROP_ENTRIES == PANIC_AT_DROP { panic!("injected destructor panic"); }
        }
    }
}

/// user-code entry point (C06): precondition = watched buffer is a valid all-live sequence
pub(crate) fn callback_entry() {
    #[cfg(not(kani))]
    if unsafe { SCENARIO } {
        unsafe {
            CALLBACKS += 1;
            if PANIC_AT_CALLBACK != 0 && CALLBACKS == PANIC_AT_CALLBACK && !std::thread::panicking() { panic!("injected user-code panic"); }
        }
        return;
    }
    unsafe {
        check!(watched_window_ok(), "[C06] buffer window is not a valid all-live sequence at user-code entry");
        CALLBACKS += 1;
        #[cfg(not(kani))]
        if PANIC_AT_CALLBACK != 0 && CALLBACKS == PANIC_AT_CALLBACK { panic!("injected user-code panic"); }
    }
}

impl Clone for Tok {
    fn clone(&self) -> Tok {
        callback_entry();
        check!((self.id as usize) < MAXID && drops(self.id as usize) == 0, "[C03,C04,C06,C12] clone of a dead or garbage element");
        let t = Tok::fresh();
        unsafe { PARENT[t.id as usize] = self.id; }
        #[cfg(not(kani))]
        nd::trace(format!("c{}>{}", self.id, t.id));
        t
    }
}

#[cfg(not(kani))]
impl core::fmt::Debug for Tok {
    fn fmt(&self, f: &mut core::fmt::Formatter<'_>) -> core::fmt::Result { write!(f, "T{}", self.id) }
}

impl PartialEq for Tok {
    fn eq(&self, o: &Tok) -> bool { callback_entry(); self.id == o.id }
}

/// the destructor / callback preconditions (C05, C06) are only armed in the *_w harness variants
pub(crate) static mut WATCH_ON: bool = false;
pub(crate) fn enable_watch() { unsafe { WATCH_ON = true; } }

pub(crate) fn watch<const N: usize>(b: &CircularBuffer<N, Tok>) {
    unsafe {
        if !WATCH_ON { return; }
        W_ITEMS = b.items.as_ptr() as *const Tok;
        W_N = N;
        W_START = &b.start;
        W_SIZE = &b.size;
    }
}
pub(crate) fn unwatch() { unsafe { W_N = 0; } }

// ---------------------------------------------------------------------------------------------
// representation invariant, abstraction function, symbolic layouts

pub(crate) fn wf<const N: usize, T>(b: &CircularBuffer<N, T>) -> bool {
    if N == 0 { b.size == 0 && b.start == 0 } else { b.start < N && b.size <= N }
}

pub(crate) fn phys(start: usize, i: usize, n: usize) -> usize {
    // n is small in every harness (<= 8); start < n, i <= n
    (start + i) % n
}

/// every well-formed layout of a capacity-N buffer holding fresh tokens 0..size in logical order;
/// unoccupied slots stay uninitialised (nondeterministic bytes under CBMC)
pub(crate) fn any_tokbuf<const N: usize>() -> CircularBuffer<N, Tok> {
    let mut b = CircularBuffer::<N, Tok>::new();
    #[cfg(not(kani))]
    unsafe { core::ptr::write_bytes(b.items.as_mut_ptr(), 0xEE, N); }   // native replay: deterministic garbage
    if N == 0 { b.start = 0; b.size = 0; return b; }
    let start = nd::usize_in(0, N - 1);
    let size = nd::usize_in(0, N);
    b.start = start;
    b.size = size;
    let mut i = 0;
    while i < size { b.items[phys(start, i, N)].write(Tok::fresh()); i += 1; }
    b
}

pub(crate) fn any_u8buf<const N: usize>() -> CircularBuffer<N, u8> {
    let mut b = CircularBuffer::<N, u8>::new();
    #[cfg(not(kani))]
    unsafe { core::ptr::write_bytes(b.items.as_mut_ptr(), 0xEE, N); }   // native replay: deterministic garbage
    if N == 0 { b.start = 0; b.size = 0; return b; }
    let start = nd::usize_in(0, N - 1);
    let size = nd::usize_in(0, N);
    b.start = start;
    b.size = size;
    let mut i = 0;
    while i < size { b.items[phys(start, i, N)].write(nd::any_u8()); i += 1; }
    b
}

pub(crate) fn ids_of<const N: usize>(b: &CircularBuffer<N, Tok>) -> Seq {
    let mut s = Seq::new();
    // the representation invariant underlies every view-based property: a soft clause (decided on its own,
    // not masking the clauses that follow), and the read below is clamped so that it stays inside the array
    check!(wf(b), "[C01,C03,C04,C05,C06,C07,C08,C09,C10,C12] representation invariant broken (start/size out of range)");
    let st = if N > 0 && b.start < N { b.start } else { 0 };
    let sz = if b.size <= N { b.size } else { N };
    let mut i = 0;
    while i < sz { s.push(unsafe { (*b.items[phys(st, i, N)].as_ptr()).id }); i += 1; }
    s
}

pub(crate) fn bytes_of<const N: usize>(b: &CircularBuffer<N, u8>) -> Seq {
    let mut s = Seq::new();
    check!(wf(b), "[C01,C13,C14,C16] representation invariant broken (start/size out of range)");
    let st = if N > 0 && b.start < N { b.start } else { 0 };
    let sz = if b.size <= N { b.size } else { N };
    let mut i = 0;
    while i < sz { s.push(unsafe { *b.items[phys(st, i, N)].as_ptr() }); i += 1; }
    s
}

#[derive(Clone, Copy)]
pub(crate) struct Slots { pub s: [usize; MAXID] }

pub(crate) fn slots_of<const N: usize>(b: &CircularBuffer<N, Tok>) -> Slots {
    let mut s = Slots { s: [usize::MAX; MAXID] };
    let mut i = 0;
    while i < b.size {
        let p = phys(b.start, i, N);
        let id = unsafe { (*b.items[p].as_ptr()).id } as usize;
        if id < MAXID { s.s[id] = p; }
        i += 1;
    }
    s
}

/// number of elements present in both states whose physical slot differs (C20)
pub(crate) fn relocated(old: &Slots, new: &Slots, _upto: usize) -> usize {
    let mut n = 0;
    unroll32!(id, { if old.s[id] != usize::MAX && new.s[id] != usize::MAX && old.s[id] != new.s[id] { n += 1; } });
    n
}

/// ledger conservation (C03): every token created so far is in exactly one place
/// in_buf: logical contents of the buffer(s); held: tokens owned by the harness (returned values)
pub(crate) fn ledger_ok(in_buf: &Seq, held: &Seq) -> bool {
    let mut cnt = [0u8; MAXID];
    let mut ok = true;
    unroll16!(i, { if i < in_buf.len { let id = in_buf.a[i] as usize; if id < MAXID { cnt[id] += 1; } else { ok = false; } } });
    unroll16!(j, { if j < held.len { let id = held.a[j] as usize; if id < MAXID { cnt[id] += 1; } else { ok = false; } } });
    let total = next_id();
    unroll32!(id, { if id < total && cnt[id] as usize + drops(id) as usize != 1 { ok = false; } });
    ok
}

pub(crate) fn opt_id(r: &Option<Tok>) -> Option<u8> { match r { Some(t) => Some(t.id), None => None } }

pub(crate) fn held1(r: &Option<Tok>) -> Seq { let mut h = Seq::new(); if let Some(t) = r { h.push(t.id); } h }

// ---------------------------------------------------------------------------------------------
// native replay search (cfg(verif_replay)): enumerate choice vectors until an assertion of the
// harness fails on the REAL code; used only to exhibit an input for an obligation the verifier
// has already rejected.

#[cfg(not(kani))]
pub(crate) static mut REPLAY_QUIET_UNWIND: bool = true;

#[cfg(not(kani))]
pub fn replay_main() {
    use std::panic;
    let args: Vec<String> = std::env::args().collect();
    if args.len() < 3 { eprintln!("usage: runner <harness> search <max_runs> [needle] | run <c0,c1,...>"); std::process::exit(2); }
    let f = match replay_dispatch(&args[1]) { Some(f) => f, None => { println!("{{\"status\":\"no-such-harness\"}}"); std::process::exit(2); } };
    thread_local! { static LAST: std::cell::RefCell<String> = std::cell::RefCell::new(String::new()); }
    panic::set_hook(Box::new(|info| {
        let msg = if let Some(s) = info.payload().downcast_ref::<&str>() { s.to_string() }
                  else if let Some(s) = info.payload().downcast_ref::<String>() { s.clone() }
                  else if info.payload().downcast_ref::<nd::Rejected>().is_some() { "<rejected>".to_string() }
                  else { "<non-string panic>".to_string() };
        let loc = info.location().map(|l| format!("{}:{}", l.file(), l.line())).unwrap_or_default();
        LAST.with(|l| { let mut l = l.borrow_mut(); if l.is_empty() { *l = format!("{} @ {}", msg, loc); } });
    }));
    let run_one = |choices: Vec<(usize, usize)>| -> (Option<String>, Vec<(usize, usize)>, Vec<String>) {
        ledger_reset();
        nd::CHOICES.with(|c| *c.borrow_mut() = choices);
        nd::POS.with(|p| *p.borrow_mut() = 0);
        nd::LOG.with(|l| l.borrow_mut().clear());
        LAST.with(|l| l.borrow_mut().clear());
        let _ = nd::take_failures();
        let r = panic::catch_unwind(f);
        let recorded = nd::take_failures();
        let ch = nd::CHOICES.with(|c| c.borrow().clone());
        let used = nd::POS.with(|p| *p.borrow());
        let ch: Vec<(usize, usize)> = ch.into_iter().take(used).collect();
        let log = nd::LOG.with(|l| l.borrow().clone());
        match r {
            Ok(()) => { if recorded.is_empty() { (None, ch, log) } else { (Some(recorded.join(" || ")), ch, log) } }
            Err(e) => {
                if e.downcast_ref::<nd::Rejected>().is_some() { (None, ch, log) }
                else { let mut all = recorded; all.push(LAST.with(|l| l.borrow().clone())); (Some(all.join(" || ")), ch, log) }
            }
        }
    };
    let esc = |s: &str| s.replace('\\', "\\\\").replace('"', "\\\"").replace('\n', " ");
    if args[2] == "run" {
        let v: Vec<(usize, usize)> = if args.len() > 3 && !args[3].is_empty() { args[3].split(',').map(|x| (x.parse().unwrap(), usize::MAX)).collect() } else { Vec::new() };
        let (hit, ch, log) = run_one(v);
        match hit {
            Some(m) => { println!("{{\"status\":\"fails\",\"message\":\"{}\",\"inputs\":\"{}\"}}", esc(&m), esc(&log.join(" "))); std::process::exit(1); }
            None => { println!("{{\"status\":\"passes\",\"inputs\":\"{}\"}}", esc(&log.join(" "))); std::process::exit(0); }
        }
    }
    if args[2] == "trace" {
        // print one line per run: choice vector, FNV-1a hash of the observable trace, number of failed clauses
        let max_runs: usize = args.get(3).and_then(|s| s.parse().ok()).unwrap_or(2000000);
        let mut choices: Vec<(usize, usize)> = Vec::new();
        let mut runs = 0usize;
        loop {
            let _ = nd::take_trace();
            let (hit, ch, _log) = run_one(choices.clone());
            let tr = nd::take_trace();
            runs += 1;
            let mut h: u64 = 0xcbf29ce484222325;
            for ev in tr.iter() { for b in ev.bytes() { h ^= b as u64; h = h.wrapping_mul(0x100000001b3); } h ^= 0xff; h = h.wrapping_mul(0x100000001b3); }
            let cs: Vec<String> = ch.iter().map(|c| c.0.to_string()).collect();
            let verbose = std::env::var("VERIF_TRACE_VERBOSE").is_ok();
            if verbose { println!("{} {:016x} {} {}", cs.join(","), h, if hit.is_some() { "F" } else { "-" }, tr.join(" ")); }
            else { println!("{} {:016x} {}", cs.join(","), h, if hit.is_some() { "F" } else { "-" }); }
            let mut v = ch;
            let mut done = false;
            loop {
                match v.pop() {
                    None => { done = true; break; }
                    Some((i, n)) => { if i + 1 < n { v.push((i + 1, n)); break; } }
                }
            }
            if done || runs >= max_runs { println!("TRACE-END runs={} complete={}", runs, done); std::process::exit(0); }
            choices = v;
        }
    }
    let max_runs: usize = args.get(3).and_then(|s| s.parse().ok()).unwrap_or(200000);
    let needle: Option<&String> = args.get(4);
    let mut choices: Vec<(usize, usize)> = Vec::new();
    let mut runs = 0usize;
    loop {
        let (hit, ch, log) = run_one(choices.clone());
        runs += 1;
        if let Some(m) = hit {
            // needle "Cxx" matches a clause tagged with that property; "Cxx+untagged" also accepts a failure without any
            // tag (a panic of the crate itself: assert!, overflow, out-of-bounds)
            let wanted = match needle {
                Some(n) if !n.is_empty() => {
                    let (tag, untagged_ok) = match n.strip_suffix("+untagged") { Some(t) => (t, true), None => (n.as_str(), false) };
                    m.contains(tag) || (untagged_ok && !m.contains('['))
                }
                _ => true,
            };
            if wanted {
                let cs: Vec<String> = ch.iter().map(|c| c.0.to_string()).collect();
                println!("{{\"status\":\"hit\",\"runs\":{},\"choices\":\"{}\",\"inputs\":\"{}\",\"message\":\"{}\"}}", runs, cs.join(","), esc(&log.join(" ")), esc(&m));
                std::process::exit(1);
            }
        }
        // next vector in lexicographic order
        let mut v = ch;
        loop {
            match v.pop() {
                None => { println!("{{\"status\":\"exhausted\",\"runs\":{}}}", runs); std::process::exit(0); }
                Some((i, n)) => { if i + 1 < n { v.push((i + 1, n)); break; } }
            }
        }
        choices = v;
        if runs >= max_runs { println!("{{\"status\":\"budget\",\"runs\":{}}}", runs); std::process::exit(0); }
    }
}

/// Model of core::slice::rotate::ptr_rotate used as a Kani stub (std's three rotation algorithms
/// with symbolic lengths exhaust CBMC; they are not the code under test).  Rotates
/// [mid-left, mid+right) so that the element at `mid` becomes the first one.
pub(crate) unsafe fn ptr_rotate_model<T>(left: usize, mid: *mut T, right: usize) {
    let base = mid.sub(left);
    let n = left + right;
    let mut k = 0;
    while k < left {
        let tmp = core::ptr::read(base);
        let mut i = 0;
        while i + 1 < n { core::ptr::copy(base.add(i + 1), base.add(i), 1); i += 1; }
        core::ptr::write(base.add(n - 1), tmp);
        k += 1;
    }
}

include!("verif_kani_ops.rs");
#[cfg(not(kani))]
include!("verif_kani_scenarios.rs");
include!("verif_kani_gen.rs");
