use circular_buffer::CircularBuffer;
use std::cell::RefCell;
use std::panic::{catch_unwind, AssertUnwindSafe};
use std::io::BufRead;

thread_local! { static DROPS: RefCell<Vec<u32>> = RefCell::new(vec![0; 64]); static PANIC_ON: RefCell<Option<u32>> = RefCell::new(None); static CLONES: RefCell<u32> = RefCell::new(100); static CLONE_PANIC_AT: RefCell<Option<u32>> = RefCell::new(None);}
struct Tok(u32);
impl Drop for Tok { fn drop(&mut self) {
    DROPS.with(|d| d.borrow_mut()[self.0 as usize] += 1);
    let p = PANIC_ON.with(|p| *p.borrow());
    if p == Some(self.0) { PANIC_ON.with(|p| *p.borrow_mut() = None); panic!("dtor {}", self.0); }
} }
impl Clone for Tok { fn clone(&self) -> Tok {
    let n = CLONES.with(|c| { let mut c = c.borrow_mut(); *c += 1; *c });
    if CLONE_PANIC_AT.with(|p| *p.borrow()) == Some(n) { panic!("clone"); }
    Tok(n - 100 + 30)
} }
fn drops() -> Vec<u32> { DROPS.with(|d| d.borrow().clone()) }
fn reset() { DROPS.with(|d| d.borrow_mut().iter_mut().for_each(|x| *x = 0)); CLONES.with(|c| *c.borrow_mut() = 100); }

fn main() {
    std::panic::set_hook(Box::new(|_| {}));
    // D1 (C02): try_push_back on N=0
    let mut z = CircularBuffer::<0, Tok>::new();
    let r = z.try_push_back(Tok(1));
    println!("D1 try_push_back N=0: is_full={} result_is_ok={} drops[1]={}", z.is_full(), r.is_ok(), drops()[1]);
    // D2 (C05): truncate_back with panicking destructor
    reset();
    {
        let mut b = CircularBuffer::<4, Tok>::new();
        for i in 2..6 { b.push_back(Tok(i)); }
        PANIC_ON.with(|p| *p.borrow_mut() = Some(2));
        let r = catch_unwind(AssertUnwindSafe(|| b.clear()));
        println!("D2 clear panicked={} len_after={} drops={:?}", r.is_err(), b.len(), &drops()[2..6]);
        drop(b);
        println!("D2 after buffer drop drops={:?}", &drops()[2..6]);
    }
    // D3 (C09/C11/C14): drain on N=0
    let r = catch_unwind(AssertUnwindSafe(|| { let mut z = CircularBuffer::<0, u8>::new(); z.drain(..); }));
    println!("D3 drain(..) N=0 panicked={}", r.is_err());
    let r = catch_unwind(AssertUnwindSafe(|| { let mut z = CircularBuffer::<0, u8>::new(); z.consume(0); }));
    println!("D3 consume(0) N=0 panicked={}", r.is_err());
    // D6 (C20): make_contiguous when contiguous and ending at array end
    {
        let mut b = CircularBuffer::<4, u32>::new();
        for i in 0..4 { b.push_back(i); }
        b.pop_front(); b.pop_front(); // start=2,size=2: contiguous, ends at array end
        let before = b.as_slices().0.as_ptr();
        let n2 = b.as_slices().1.len();
        b.make_contiguous();
        let after = b.as_slices().0.as_ptr();
        println!("D6 make_contiguous: second slice len before={} moved={}", n2, before != after);
    }
    // D4 (C06): extend_from_slice leak when clone panics in second segment
    reset();
    {
        let mut b = CircularBuffer::<4, Tok>::new();
        // start=2,size=0 -> free space wraps: right = [2,3], left=[0,1]
        b.push_back(Tok(20)); b.push_back(Tok(21)); b.pop_front(); b.pop_front();
        let src = [Tok(10), Tok(11), Tok(12)];
        CLONE_PANIC_AT.with(|p| *p.borrow_mut() = Some(103));
        let r = catch_unwind(AssertUnwindSafe(|| b.extend_from_slice(&src)));
        CLONE_PANIC_AT.with(|p| *p.borrow_mut() = None);
        println!("D4 extend_from_slice panicked={} len_after={}", r.is_err(), b.len());
        drop(b);
        println!("D4 clones created ids 31,32; drops[31]={} drops[32]={}", drops()[31], drops()[32]);
        std::mem::forget(src);
    }
    // D5 (C05): From<[T;M]> with panicking destructor in discarded prefix
    reset();
    {
        PANIC_ON.with(|p| *p.borrow_mut() = Some(40));
        let r = catch_unwind(AssertUnwindSafe(|| { let b = CircularBuffer::<2, Tok>::from([Tok(40), Tok(41), Tok(42), Tok(43)]); std::mem::forget(b); }));
        println!("D5 from array panicked={} drops[40..44]={:?}", r.is_err(), &drops()[40..44]);
    }
}
