"""Table of Kani contract harnesses: generic contract fn in contracts/kani/*.rs x capacities.

props    : properties whose tagged assertions live in the harness
untagged : properties for which an UNTAGGED failing check (the crate's own assert!/debug_assert!/
           expect, arithmetic overflow, out-of-bounds, invalid pointer) counts as a violation.
           Default: props & TOTAL (properties whose statement includes "returns normally /
           never panics") - plus C11 which every operation harness serves.
ns       : capacities per tier (thorough defaults to quick if absent)
unwind   : loop bound as a function of N (unwinding assertions stay ON: a too-small bound is
           reported as 'undecided', never as a pass)
"""

TOTAL = {'C01', 'C09', 'C11', 'C14', 'C16', 'C19'}

Q = [0, 1, 3]
T = [0, 1, 2, 3, 4, 5]


def harness_name(e, n):
    return 'h_%s_n%d' % (e.get('name', e['fn']), n)


def H(fn, props, ns_q=Q, ns_t=T, unwind=lambda n: n + 3, **kw):
    props = props.split()
    e = dict(fn=fn, props=props, ns={'quick': ns_q, 'thorough': ns_t}, unwind=unwind)
    e.update(kw)
    if 'untagged' not in e:
        e['untagged'] = sorted(set(props) & TOTAL)
    else:
        e['untagged'] = e['untagged'].split()
    return e


HARNESSES = [
    # single-element insertion / removal
    H('c_push_back', 'C01 C02 C03 C04 C11 C20'),
    H('c_push_front', 'C01 C02 C03 C04 C11 C20'),
    H('c_try_push_back', 'C01 C02 C03 C04 C11 C20'),
    H('c_try_push_front', 'C01 C02 C03 C04 C11 C20'),
    H('c_pop_back', 'C01 C03 C04 C11 C20'),
    H('c_pop_front', 'C01 C03 C04 C11 C20'),
    H('c_remove', 'C01 C03 C04 C11 C20'),
    H('c_swap', 'C01 C03 C04 C11 C20', ns_q=[1, 3], ns_t=[1, 2, 3, 4, 5]),
    H('c_swap_remove_back', 'C01 C03 C04 C11 C20'),
    H('c_swap_remove_front', 'C01 C03 C04 C11 C20'),
    H('c_truncate_back', 'C01 C03 C04 C05 C11 C20', unwind=lambda n: n + 3),
    H('c_truncate_front', 'C01 C03 C04 C05 C11 C20'),
    H('c_clear', 'C01 C03 C04 C05 C11'),
    H('c_drop_buffer', 'C03 C05 C11'),
]
