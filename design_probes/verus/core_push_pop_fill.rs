use vstd::prelude::*;
use core::mem::MaybeUninit;
use core::mem;
verus! {

pub assume_specification [usize::overflowing_add] (a: usize, b: usize) -> (r: (usize, bool))
    ensures
        r.1 == (a + b > usize::MAX),
        r.0 as int == (if a + b > usize::MAX { a + b - usize::MAX - 1 } else { a + b }),
;

pub assume_specification<T> [core::mem::replace::<T>] (dest: &mut T, src: T) -> (r: T)
    ensures r == *old(dest), *final(dest) == src,
;

pub assume_specification<T> [MaybeUninit::<T>::write] (slot: &mut MaybeUninit<T>, val: T) -> (r: &mut T)
    ensures final(slot).mem_contents() == vstd::raw_ptr::MemContents::Init(val),
;

pub assume_specification<T> [MaybeUninit::<T>::assume_init_read] (slot: &MaybeUninit<T>) -> (r: T)
    requires slot.mem_contents().is_init(),
    ensures r == slot.mem_contents().value(),
;

proof fn lemma_add_mod(x: usize, y: usize, m: usize)
    requires m > 0, x <= m, y <= m,
    ensures
        x + y > usize::MAX ==> (usize::MAX % m) as int == usize::MAX - m,
        x + y > usize::MAX ==> ((x + y - m) % (m as int)) == (x + y) % (m as int),
{
    if x + y > usize::MAX {
        assert(2 * m > usize::MAX);
        vstd::arithmetic::div_mod::lemma_fundamental_div_mod_converse(usize::MAX as int, m as int, 1, usize::MAX - m);
        vstd::arithmetic::div_mod::lemma_mod_sub_multiples_vanish((x + y) as int, m as int);
    }
}

#[inline]
const fn add_mod(x: usize, y: usize, m: usize) -> (r: usize)
    requires m > 0, x <= m, y <= m,
    ensures r == (x + y) % (m as int),
{
    proof { lemma_add_mod(x, y, m); }
    let (z, overflow) = x.overflowing_add(y);
    (z + (overflow as usize) * (usize::MAX % m + 1)) % m
}

spec fn phys(start: usize, i: int, n: usize) -> int { (start + i) % (n as int) }

proof fn lemma_phys(start: usize, n: usize)
    requires n > 0, start < n,
    ensures
        forall|i: int| 0 <= i < n ==> 0 <= #[trigger] phys(start, i, n) < n,
        forall|i: int, j: int| 0 <= i < n && 0 <= j < n && i != j ==> #[trigger] phys(start, i, n) != #[trigger] phys(start, j, n),
        phys(start, 0, n) == start,
        phys(start, 1, n) < n,
        forall|i: int| 0 <= i < n - 1 ==> #[trigger] phys(phys(start, 1, n) as usize, i, n) == phys(start, i + 1, n),
        phys(phys(start, 1, n) as usize, n - 1, n) == start,
{
    vstd::arithmetic::div_mod::lemma_small_mod(start as nat, n as nat);
    vstd::arithmetic::div_mod::lemma_mod_bound(start + 1, n as int);
    assert forall|i: int| 0 <= i < n implies #[trigger] phys(phys(start, 1, n) as usize, i, n) == phys(start, i + 1, n) by {
        vstd::arithmetic::div_mod::lemma_add_mod_noop(start + 1, i, n as int);
        vstd::arithmetic::div_mod::lemma_small_mod(i as nat, n as nat);
    }
    vstd::arithmetic::div_mod::lemma_mod_add_multiples_vanish(start as int, n as int);

    assert forall|i: int, j: int| 0 <= i < n && 0 <= j < n && i != j implies #[trigger] phys(start, i, n) != #[trigger] phys(start, j, n) by {
        let a = start + i; let b = start + j;
        if a < n { vstd::arithmetic::div_mod::lemma_small_mod(a as nat, n as nat); } else { vstd::arithmetic::div_mod::lemma_mod_sub_multiples_vanish(a, n as int); vstd::arithmetic::div_mod::lemma_small_mod((a - n) as nat, n as nat); }
        if b < n { vstd::arithmetic::div_mod::lemma_small_mod(b as nat, n as nat); } else { vstd::arithmetic::div_mod::lemma_mod_sub_multiples_vanish(b, n as int); vstd::arithmetic::div_mod::lemma_small_mod((b - n) as nat, n as nat); }
    }
}

struct CircularBuffer<const N: usize, T> {
    size: usize,
    start: usize,
    items: [MaybeUninit<T>; N],
}

impl<const N: usize, T> CircularBuffer<N, T> {
    spec fn phys(&self, i: int) -> int { phys(self.start, i, N) }

    spec fn wf(&self) -> bool {
        &&& self.size <= N
        &&& (N == 0 ==> self.start == 0)
        &&& (N > 0 ==> self.start < N)
        &&& forall|i: int| 0 <= i < self.size ==> (#[trigger] self.items[phys(self.start, i, N)]).mem_contents().is_init()
    }

    spec fn view(&self) -> Seq<T> {
        Seq::new(self.size as nat, |i: int| self.items[self.phys(i)].mem_contents().value())
    }

    const fn len(&self) -> (r: usize)
        ensures r == self.size
    {
        self.size
    }

    #[inline]
    fn front_maybe_uninit_mut(&mut self) -> (r: &mut MaybeUninit<T>)
        requires old(self).start < N
        ensures *r == old(self).items[old(self).start as int],
            final(self).size == old(self).size, final(self).start == old(self).start,
            final(self).items@ == old(self).items@.update(old(self).start as int, *final(r)),
    {
        &mut self.items[self.start]
    }
    #[inline]
    const fn back_maybe_uninit(&self) -> (r: &MaybeUninit<T>)
        requires self.wf(), self.size > 0, N > 0
        ensures *r == self.items[self.phys(self.size - 1)]
    {
        let back = add_mod(self.start, self.size - 1, N);
        &self.items[back]
    }

    #[inline]
    fn dec_size(&mut self)
        requires old(self).size > 0
        ensures final(self).size == old(self).size - 1, final(self).start == old(self).start, final(self).items == old(self).items
    {
        self.size -= 1;
    }

    fn pop_back(&mut self) -> (r: Option<T>)
        requires old(self).wf()
        ensures final(self).wf(),
            old(self)@.len() == 0 ==> r.is_none() && final(self)@ == old(self)@,
            old(self)@.len() > 0 ==> r == Some(old(self)@.last()) && final(self)@ == old(self)@.drop_last(),
    {
        if N == 0 || self.size == 0 {
            // Nothing to do
            return None;
        }

        // SAFETY: if size is greater than 0, the back item is guaranteed to be initialized.
        let back = unsafe { self.back_maybe_uninit().assume_init_read() };
        self.dec_size();
        Some(back)
    }

    #[inline]
    fn back_maybe_uninit_mut(&mut self) -> (r: &mut MaybeUninit<T>)
        requires old(self).start < N, 0 < old(self).size <= N
        ensures
            *r == old(self).items[old(self).phys(old(self).size - 1)],
            final(self).size == old(self).size, final(self).start == old(self).start,
            final(self).items@ == old(self).items@.update(old(self).phys(old(self).size - 1), *final(r)),
    {
        debug_assert!(self.size > 0, "empty buffer");
        debug_assert!(self.size <= N, "size out-of-bounds");
        debug_assert!(self.start < N, "start out-of-bounds");
        let back = add_mod(self.start, self.size - 1, N);
        &mut self.items[back]
    }

    #[inline]
    fn inc_size(&mut self)
        requires old(self).size < N
        ensures final(self).size == old(self).size + 1, final(self).start == old(self).start, final(self).items == old(self).items
    {
        self.size += 1;
    }

    fn try_push_back(&mut self, item: T) -> (r: Result<(), T>)
        requires old(self).wf()
        ensures final(self).wf(),
            N > 0 && old(self)@.len() == N ==> r == Err::<(), T>(item) && final(self)@ == old(self)@,
            old(self)@.len() < N ==> r.is_ok() && final(self)@ =~= old(self)@.push(item),
    {
        proof { if N > 0 { lemma_phys(self.start, N); } }
        if N == 0 {
            // Nothing to do
            return Ok(());
        }
        if self.size >= N {
            // At capacity; return the pushed item as error
            Err(item)
        } else {
            // Some uninitialized slots left; append at the end
            self.inc_size();
            self.back_maybe_uninit_mut().write(item);
            Ok(())
        }
    }

    fn push_back(&mut self, item: T) -> (r: Option<T>)
        requires old(self).wf()
        ensures final(self).wf(),
            N == 0 ==> r == Some(item) && final(self)@ =~= old(self)@,
            N > 0 && old(self)@.len() == N ==> r == Some(old(self)@[0]) && final(self)@ =~= old(self)@.subrange(1, N as int).push(item),
            old(self)@.len() < N ==> r.is_none() && final(self)@ =~= old(self)@.push(item),
    {
        proof { if N > 0 { lemma_phys(self.start, N); } }
        if N == 0 {
            // Nothing to do
            return Some(item);
        }

        if self.size >= N {
            // At capacity; need to replace the front item
            //
            // SAFETY: if size is greater than 0, the front item is guaranteed to be initialized.
            let replaced_item = mem::replace(
                unsafe { self.front_maybe_uninit_mut().assume_init_mut() },
                item,
            );
            self.inc_start();
            Some(replaced_item)
        } else {
            // Some uninitialized slots left; append at the end
            self.inc_size();
            self.back_maybe_uninit_mut().write(item);
            None
        }
    }

    #[inline]
    fn inc_start(&mut self)
        requires old(self).start < N
        ensures final(self).start == phys(old(self).start, 1, N), final(self).size == old(self).size, final(self).items == old(self).items
    {
        debug_assert!(self.start < N, "start out-of-bounds");
        self.start = add_mod(self.start, 1, N);
    }

    fn fill_spare(&mut self, value: T)
    where
        T: Clone,
        requires old(self).wf()
        ensures final(self).wf(), final(self)@.len() == N,
            final(self)@.subrange(0, old(self)@.len() as int) =~= old(self)@,
    {
        if N == 0 || self.size == N {
            return;
        }
        // TODO Optimize
        while self.size < N - 1 
            invariant self.wf(), N > 0, self.size < N, self@.subrange(0, old(self)@.len() as int) =~= old(self)@, old(self)@.len() <= self@.len()
            decreases N - self.size
        {
            self.push_back(value.clone());
        }
        self.push_back(value);
    }
}

} // verus!
fn main() {}
