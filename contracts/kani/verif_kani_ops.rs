// Harness-encoded contracts: symbolic pre-state under wf; call of the REAL function;
// postcondition over the whole abstract view + ledger + frame.

fn post_common<const N: usize>(b: &CircularBuffer<N, Tok>, what: &str) {
    assert!(wf(b), "[C01,C03,C04] representation invariant broken after the operation");
}

// ----- single-element insertion (C01 C02 C03 C20) ------------------------------------------

pub(crate) fn c_push_back<const N: usize>() {
    let mut b = any_tokbuf::<N>();
    let old = ids_of(&b); let old_slots = slots_of(&b);
    let x = Tok::fresh(); let xid = x.id;
    let r = b.push_back(x);
    post_common(&b, "push_back");
    let new = ids_of(&b);
    let mut m = old; let mr = m.push_back_capped(xid, N);
    assert!(opt_id(&r) == mr, "[C01,C02] push_back: returned element is not the displaced one");
    assert!(new.eq(&m), "[C01,C02] push_back: contents differ from the capped-deque model");
    assert!(b.len() == m.len && b.is_empty() == (m.len == 0) && b.is_full() == (m.len == N), "[C01] push_back: len/is_empty/is_full");
    assert!(ledger_ok(&new, &held1(&r)), "[C03] push_back: element lost, duplicated or destroyed");
    assert!(relocated(&old_slots, &slots_of(&b), next_id()) <= 2, "[C20] push_back relocates more than two surviving elements");
    nd::reached();
    core::mem::forget(r); core::mem::forget(b);
}

pub(crate) fn c_push_front<const N: usize>() {
    let mut b = any_tokbuf::<N>();
    let old = ids_of(&b); let old_slots = slots_of(&b);
    let x = Tok::fresh(); let xid = x.id;
    let r = b.push_front(x);
    post_common(&b, "push_front");
    let new = ids_of(&b);
    let mut m = old; let mr = m.push_front_capped(xid, N);
    assert!(opt_id(&r) == mr, "[C01,C02] push_front: returned element is not the displaced one");
    assert!(new.eq(&m), "[C01,C02] push_front: contents differ from the capped-deque model");
    assert!(b.len() == m.len && b.is_empty() == (m.len == 0) && b.is_full() == (m.len == N), "[C01] push_front: len/is_empty/is_full");
    assert!(ledger_ok(&new, &held1(&r)), "[C03] push_front: element lost, duplicated or destroyed");
    assert!(relocated(&old_slots, &slots_of(&b), next_id()) <= 2, "[C20] push_front relocates more than two surviving elements");
    nd::reached();
    core::mem::forget(r); core::mem::forget(b);
}

pub(crate) fn c_try_push_back<const N: usize>() {
    let mut b = any_tokbuf::<N>();
    let old = ids_of(&b); let old_slots = slots_of(&b);
    let x = Tok::fresh(); let xid = x.id;
    let r = b.try_push_back(x);
    post_common(&b, "try_push_back");
    let new = ids_of(&b);
    let mut held = Seq::new();
    if old.len == N {
        // full (this includes capacity zero): Err with that very element, buffer unchanged
        match &r { Err(t) => { assert!(t.id == xid, "[C01,C02] try_push_back: Err carries a different element"); held.push(t.id); }
                   Ok(()) => assert!(false, "[C01,C02] try_push_back: returned Ok on a full buffer (element silently lost)") }
        assert!(new.eq(&old), "[C01,C02] try_push_back: full buffer changed");
    } else {
        assert!(r.is_ok(), "[C01,C02] try_push_back: returned Err although the buffer was not full");
        let mut m = old; m.push(xid);
        assert!(new.eq(&m), "[C01,C02] try_push_back: element not appended at the back");
    }
    assert!(ledger_ok(&new, &held), "[C03] try_push_back: element lost, duplicated or destroyed");
    assert!(relocated(&old_slots, &slots_of(&b), next_id()) <= 2, "[C20] try_push_back relocates more than two surviving elements");
    nd::reached();
    core::mem::forget(r); core::mem::forget(b);
}

pub(crate) fn c_try_push_front<const N: usize>() {
    let mut b = any_tokbuf::<N>();
    let old = ids_of(&b); let old_slots = slots_of(&b);
    let x = Tok::fresh(); let xid = x.id;
    let r = b.try_push_front(x);
    post_common(&b, "try_push_front");
    let new = ids_of(&b);
    let mut held = Seq::new();
    if old.len == N {
        match &r { Err(t) => { assert!(t.id == xid, "[C01,C02] try_push_front: Err carries a different element"); held.push(t.id); }
                   Ok(()) => assert!(false, "[C01,C02] try_push_front: returned Ok on a full buffer (element silently lost)") }
        assert!(new.eq(&old), "[C01,C02] try_push_front: full buffer changed");
    } else {
        assert!(r.is_ok(), "[C01,C02] try_push_front: returned Err although the buffer was not full");
        let mut m = old; m.push_front(xid);
        assert!(new.eq(&m), "[C01,C02] try_push_front: element not inserted at the front");
    }
    assert!(ledger_ok(&new, &held), "[C03] try_push_front: element lost, duplicated or destroyed");
    assert!(relocated(&old_slots, &slots_of(&b), next_id()) <= 2, "[C20] try_push_front relocates more than two surviving elements");
    nd::reached();
    core::mem::forget(r); core::mem::forget(b);
}

// ----- removal (C01 C03 C20) ----------------------------------------------------------------

pub(crate) fn c_pop_back<const N: usize>() {
    let mut b = any_tokbuf::<N>();
    let old = ids_of(&b); let old_slots = slots_of(&b);
    let r = b.pop_back();
    post_common(&b, "pop_back");
    let new = ids_of(&b);
    let mut m = old; let mr = m.pop_back();
    assert!(opt_id(&r) == mr, "[C01] pop_back: wrong element returned");
    assert!(new.eq(&m), "[C01] pop_back: contents differ from the model");
    assert!(ledger_ok(&new, &held1(&r)), "[C03] pop_back: element lost, duplicated or destroyed");
    assert!(relocated(&old_slots, &slots_of(&b), next_id()) <= 2, "[C20] pop_back relocates more than two surviving elements");
    nd::reached();
    core::mem::forget(r); core::mem::forget(b);
}

pub(crate) fn c_pop_front<const N: usize>() {
    let mut b = any_tokbuf::<N>();
    let old = ids_of(&b); let old_slots = slots_of(&b);
    let r = b.pop_front();
    post_common(&b, "pop_front");
    let new = ids_of(&b);
    let mut m = old; let mr = m.pop_front();
    assert!(opt_id(&r) == mr, "[C01] pop_front: wrong element returned");
    assert!(new.eq(&m), "[C01] pop_front: contents differ from the model");
    assert!(ledger_ok(&new, &held1(&r)), "[C03] pop_front: element lost, duplicated or destroyed");
    assert!(relocated(&old_slots, &slots_of(&b), next_id()) <= 2, "[C20] pop_front relocates more than two surviving elements");
    nd::reached();
    core::mem::forget(r); core::mem::forget(b);
}

pub(crate) fn c_remove<const N: usize>() {
    let mut b = any_tokbuf::<N>();
    let old = ids_of(&b); let old_slots = slots_of(&b);
    let i = nd::any_usize();
    let r = b.remove(i);
    post_common(&b, "remove");
    let new = ids_of(&b);
    let mut m = old; let mr = m.remove(i);
    assert!(opt_id(&r) == mr, "[C01] remove: wrong element returned (or Some/None wrong)");
    assert!(new.eq(&m), "[C01] remove: contents differ from the model");
    assert!(ledger_ok(&new, &held1(&r)), "[C03] remove: element lost, duplicated or destroyed");
    let budget = if i < old.len { old.len - i } else { 0 };
    assert!(relocated(&old_slots, &slots_of(&b), next_id()) <= budget, "[C20] remove(i) relocates more than len-i surviving elements");
    nd::reached();
    core::mem::forget(r); core::mem::forget(b);
}

pub(crate) fn c_swap<const N: usize>() {
    let mut b = any_tokbuf::<N>();
    let old = ids_of(&b); let old_slots = slots_of(&b);
    let i = nd::any_usize(); let j = nd::any_usize();
    nd::assume(i < old.len && j < old.len);
    b.swap(i, j);
    post_common(&b, "swap");
    let new = ids_of(&b);
    let mut m = old; m.swap(i, j);
    assert!(new.eq(&m), "[C01] swap: contents differ from the model");
    assert!(ledger_ok(&new, &Seq::new()), "[C03] swap: element lost, duplicated or destroyed");
    assert!(relocated(&old_slots, &slots_of(&b), next_id()) <= 2, "[C20] swap relocates more than two surviving elements");
    nd::reached();
    core::mem::forget(b);
}

pub(crate) fn c_swap_remove_back<const N: usize>() {
    let mut b = any_tokbuf::<N>();
    let old = ids_of(&b); let old_slots = slots_of(&b);
    let i = nd::any_usize();
    let r = b.swap_remove_back(i);
    post_common(&b, "swap_remove_back");
    let new = ids_of(&b);
    let mut m = old;
    let mr = if i < m.len { let l = m.len - 1; m.swap(i, l); m.pop_back() } else { None };
    assert!(opt_id(&r) == mr, "[C01] swap_remove_back: wrong element returned");
    assert!(new.eq(&m), "[C01] swap_remove_back: contents differ from the model");
    assert!(ledger_ok(&new, &held1(&r)), "[C03] swap_remove_back: element lost, duplicated or destroyed");
    assert!(relocated(&old_slots, &slots_of(&b), next_id()) <= 2, "[C20] swap_remove_back relocates more than two surviving elements");
    nd::reached();
    core::mem::forget(r); core::mem::forget(b);
}

pub(crate) fn c_swap_remove_front<const N: usize>() {
    let mut b = any_tokbuf::<N>();
    let old = ids_of(&b); let old_slots = slots_of(&b);
    let i = nd::any_usize();
    let r = b.swap_remove_front(i);
    post_common(&b, "swap_remove_front");
    let new = ids_of(&b);
    let mut m = old;
    let mr = if i < m.len { m.swap(i, 0); m.pop_front() } else { None };
    assert!(opt_id(&r) == mr, "[C01] swap_remove_front: wrong element returned");
    assert!(new.eq(&m), "[C01] swap_remove_front: contents differ from the model");
    assert!(ledger_ok(&new, &held1(&r)), "[C03] swap_remove_front: element lost, duplicated or destroyed");
    assert!(relocated(&old_slots, &slots_of(&b), next_id()) <= 2, "[C20] swap_remove_front relocates more than two surviving elements");
    nd::reached();
    core::mem::forget(r); core::mem::forget(b);
}

// ----- truncation (C01 C03 C05 C20) ---------------------------------------------------------

pub(crate) fn c_truncate_back<const N: usize>() {
    let mut b = any_tokbuf::<N>();
    watch(&b);
    let old = ids_of(&b); let old_slots = slots_of(&b);
    let len = nd::any_usize();
    b.truncate_back(len);
    unwatch();
    post_common(&b, "truncate_back");
    let new = ids_of(&b);
    let mut m = old; m.keep_first(len);
    assert!(new.eq(&m), "[C01] truncate_back: contents differ from the model");
    assert!(ledger_ok(&new, &Seq::new()), "[C03] truncate_back: element lost, duplicated, leaked or destroyed while reachable");
    assert!(relocated(&old_slots, &slots_of(&b), next_id()) <= 2, "[C20] truncate_back relocates more than two surviving elements");
    nd::reached();
    core::mem::forget(b);
}

pub(crate) fn c_truncate_front<const N: usize>() {
    let mut b = any_tokbuf::<N>();
    watch(&b);
    let old = ids_of(&b); let old_slots = slots_of(&b);
    let len = nd::any_usize();
    b.truncate_front(len);
    unwatch();
    post_common(&b, "truncate_front");
    let new = ids_of(&b);
    let mut m = old; m.keep_last(len);
    assert!(new.eq(&m), "[C01] truncate_front: contents differ from the model");
    assert!(ledger_ok(&new, &Seq::new()), "[C03] truncate_front: element lost, duplicated, leaked or destroyed while reachable");
    assert!(relocated(&old_slots, &slots_of(&b), next_id()) <= 2, "[C20] truncate_front relocates more than two surviving elements");
    nd::reached();
    core::mem::forget(b);
}

pub(crate) fn c_clear<const N: usize>() {
    let mut b = any_tokbuf::<N>();
    watch(&b);
    b.clear();
    unwatch();
    post_common(&b, "clear");
    let new = ids_of(&b);
    assert!(new.len == 0 && b.is_empty(), "[C01] clear: buffer not empty");
    assert!(ledger_ok(&new, &Seq::new()), "[C03] clear: element leaked or destroyed twice");
    nd::reached();
    core::mem::forget(b);
}

pub(crate) fn c_drop_buffer<const N: usize>() {
    let mut b = any_tokbuf::<N>();
    watch(&b);
    unsafe { core::ptr::drop_in_place(&mut b); }   // Drop::drop in place (a move would change the watched address)
    core::mem::forget(b);
    unwatch();
    assert!(ledger_ok(&Seq::new(), &Seq::new()), "[C03] dropping the buffer: element leaked or destroyed twice");
    nd::reached();
}
