"""./check driver: decides one property with the Verus leg and/or the Kani leg, writes evidence,
prints VIOLATION / KNOWN-FINDING lines, runs the native replay search for refutations."""
import hashlib
import json
import os
import re
import shutil
import subprocess
import sys
import tempfile
import time

from . import kanileg, verusleg
from .harness_table import HARNESSES, harness_name
from .props import PROPS

VERIF = os.path.dirname(os.path.dirname(os.path.abspath(__file__)))
REPO = os.environ.get('VERIF_REPO', '/repo')
EVID = os.environ.get('VERIF_EVIDENCE_DIR') or os.path.join(VERIF, 'evidence')
REPLAYS = os.environ.get('VERIF_REPLAYS_DIR') or os.path.join(VERIF, 'replays')
KNOWN = os.path.join(VERIF, 'known_findings.txt')


def log(*a):
    print(*a, flush=True)


def load_known():
    known, fixed = [], []
    if not os.path.exists(KNOWN):
        return known, fixed
    for ln in open(KNOWN).read().split('\n'):
        ln = ln.strip()
        if not ln or ln.startswith('#'):
            continue
        if ln.startswith('known:'):
            body, _, what = ln[6:].partition('::')
            d = dict(re.findall(r'(\w+)=("[^"]*"|\S+)', body))
            d = {k: v.strip('"') for k, v in d.items()}
            d['what'] = what.strip()
            known.append(d)
        elif ln.startswith('fixed:'):
            fixed.append(ln)
    return known, fixed


def matches_known(v, known):
    for k in known:
        if k.get('property') != v['property']:
            continue
        if k.get('leg') and k['leg'] != v['leg']:
            continue
        if k.get('function') and k['function'] != v['function']:
            continue
        if k.get('obligation') and k['obligation'] not in v['obligation']:
            continue
        if k.get('n') and str(v.get('n')) != k['n']:
            continue
        return k
    return None


def mktemp(tag):
    base = os.environ.get('VERIF_TMP') or tempfile.gettempdir()
    return tempfile.mkdtemp(prefix='verif-%s-' % tag, dir=base)


# ---------------------------------------------------------------------------------------------

def verus_part(prop, tier, seed, tmp):
    """-> dict(status, violations[], evidence{})"""
    spec = PROPS[prop]
    if not spec.get('verus'):
        return None
    wd = os.path.join(tmp, 'verus')
    os.makedirs(wd, exist_ok=True)
    tpl = verusleg.templates_for(prop)
    out = verusleg.run(os.path.join(REPO, 'src'), wd, seed=0, extra_templates=tpl)
    ev = dict(status=out.status, reason=out.reason, cmd=out.cmd, wall_s=round(out.wall_s, 2), smt_ms=out.smt_ms,
              verus_version=out.version, verified_functions=out.verified, errors_total=out.errors)
    if out.status != 'ok':
        return dict(status='undecided', reason=out.reason, violations=[], evidence=ev, out=out)
    viol, undec = [], []
    for f in out.failures:
        if prop not in f['tags']:
            continue
        if f['klass'] == 'undecided':
            undec.append(f)
            continue
        viol.append(f)
    # stability: a failure must reproduce under two further solver seeds, otherwise the proof is
    # unstable and the obligation is undecided (never a violation)
    confirmed = []
    if viol:
        reruns = []
        for k in (1, 2):
            wd2 = os.path.join(tmp, 'verus_seed%d' % k)
            os.makedirs(wd2, exist_ok=True)
            o2 = verusleg.run(os.path.join(REPO, 'src'), wd2, seed=(seed or 0) * 7 + 1000 + k * 7919, log_air=False, extra_templates=tpl)
            reruns.append(o2)
        for f in viol:
            stable = True
            for o2 in reruns:
                if o2.status != 'ok' or not any(g['fn'] == f['fn'] and g['name'] == f['name'] and g['msg'] == f['msg'] for g in o2.failures):
                    stable = False
            if stable:
                confirmed.append(f)
            else:
                f['klass'] = 'unstable'
                undec.append(f)
    extra = {}
    if tier == 'thorough':
        st, vac, nchk, why = verusleg.vacuity_check(os.path.join(REPO, 'src'), os.path.join(tmp, 'verus_vac'), templates=tpl)
        extra['vacuity_guard'] = dict(status=st, functions_checked=nchk, vacuous=vac, reason=why,
                                      rule='assert(false) as first statement of every contracted body must fail')
        for k in vac:
            undec.append(dict(fn=k, name='vacuity guard', klass='vacuous', msg='assert(false) verified: the requires clause is unsatisfiable'))
        seeds_ok = []
        for k in (1, 2):
            wd3 = os.path.join(tmp, 'verus_thorough_seed%d' % k)
            os.makedirs(wd3, exist_ok=True)
            o3 = verusleg.run(os.path.join(REPO, 'src'), wd3, seed=(seed or 0) * 13 + 500 + k * 104729, log_air=False, extra_templates=tpl)
            rel = [g for g in o3.failures if prop in g['tags']]
            seeds_ok.append(dict(seed=(seed or 0) * 13 + 500 + k * 104729, status=o3.status, verified=o3.verified, relevant_failures=len(rel)))
            for g in rel:
                if not any(f['fn'] == g['fn'] and f['name'] == g['name'] for f in out.failures):
                    g = dict(g)
                    g['klass'] = 'unstable (fails only under solver seed %d)' % ((seed or 0) * 13 + 500 + k * 104729)
                    undec.append(g)
        extra['reseeded_runs'] = seeds_ok
    # obligations relevant to this property
    obl, dis = 0, 0
    samples = []
    fn_rows = []
    failed_names = set((f['fn'], f['name']) for f in out.failures)
    relevant_fns = set()
    vname_to_key = {}
    for k, v in out.gen.functions.items():
        if v.get('verus_name'):
            ty = k.rsplit('::', 1)[0].split(' for ')[-1].lstrip('&') if '::' in k else ''
            vname_to_key[(ty + '::' if ty else '') + v['verus_name']] = k
    for vn, lst in out.obligations.items():
        n_rel = 0
        for o in lst:
            if prop in o['tags']:
                n_rel += 1
                if len(samples) < 12 and o['name']:
                    s = '%s: %s [%s]' % (vn, o['name'], o['label'])
                    if s not in samples:
                        samples.append(s)
        if n_rel:
            relevant_fns.add(vn)
            obl += n_rel
    n_failed = len([f for f in out.failures if prop in f['tags']])
    # obligations of functions Verus did not finish (resource limit, solver gave up) are NOT discharged
    unfinished = 0
    for vn in relevant_fns:
        st = None
        for full, d in out.functions.items():
            if full == vn or full.endswith('::' + vn):
                st = d
        if st is not None and not st.get('success', False):
            n_here = len([o for o in out.obligations.get(vn, []) if prop in o['tags']])
            n_reported = len([f for f in out.failures if prop in f['tags'] and (f['fn'] or '').endswith(vn.split('::')[-1])])
            unfinished += max(0, n_here - n_reported) if any(g['klass'] == 'undecided' and (g['fn'] or '').endswith(vn.split('::')[-1]) for g in out.failures) else 0
    dis = max(0, obl - n_failed - unfinished)
    for vn in sorted(relevant_fns):
        key = vname_to_key.get(vn, vn)
        meta = out.gen.functions.get(key, {})
        st = out.functions.get(vn) or out.functions.get('CircularBuffer::' + vn) or {}
        # function-breakdown names are like CircularBuffer::push_back
        for full, d in out.functions.items():
            if full == vn or full.endswith('::' + vn):
                st = d
        fn_rows.append(dict(function=key, file=meta.get('file'), lines=meta.get('lines'), source_sha256=meta.get('sha256'),
                            leg='verus', backend='Z3 (via Verus %s)' % out.version, solver_ms=st.get('time_ms'), rlimit=st.get('rlimit'),
                            verified=bool(st.get('success', False)), trusted=meta.get('trusted', False),
                            extraction=meta.get('rewrites', [])))
    ev.update(extra)
    ev.update(obligations=obl, discharged=dis, functions=fn_rows, samples=samples,
              trusted_base=out.trusted_scan + out.gen.trusted,
              source_files=out.gen.files,
              undecided=[dict(function=f['fn'], obligation=f['name'], reason=f['klass'] + ': ' + f['msg']) for f in undec])
    vs = []
    for f in confirmed:
        vs.append(dict(property=prop, leg='verus', function=f['fn'] or '?', obligation=f['name'] or f['msg'], n='all', verus_msg=f['msg'],
                       detail='%s (%s) in %s%s' % (f['msg'], f['name'], f['fn'], (' at /repo/src line ~%s' % f['src_line']) if f['src_line'] else ''),
                       verifier_output=f['rendered']))
    status = 'ok'
    if undec and not confirmed:
        status = 'partial'
    return dict(status=status, violations=vs, evidence=ev, out=out, reason='; '.join('%s/%s: %s' % (f['fn'], f['name'], f['klass']) for f in undec))


def kani_part(prop, tier, seed, tmp, only=None):
    pairs = kanileg.select(prop, tier, only=only)
    if not pairs:
        return None
    scratch = os.path.join(tmp, 'kani')
    all_pairs = kanileg.all_pairs()
    htimeout = 600 if tier == 'quick' else 1800
    out = kanileg.run(REPO, scratch, pairs, all_pairs=all_pairs, harness_timeout=htimeout)
    # a failed unwinding assertion means the loop bound of the harness was too small for the code as it is now:
    # retry those harnesses once with a doubled bound before calling them undecided
    if out.status == 'ok':
        redo, override = [], {}
        for e, n in pairs:
            nm = harness_name(e, n)
            r = out.results.get(nm)
            if r and any('unwinding assertion' in f['desc'] for f in r['failures']):
                u = e['unwind'](n) if callable(e['unwind']) else e['unwind']
                override[nm] = 2 * u + 4
                redo.append((e, n))
        if redo:
            scratch2 = os.path.join(tmp, 'kani_retry')
            out2 = kanileg.run(REPO, scratch2, redo, all_pairs=all_pairs, harness_timeout=htimeout, unwind_override=override)
            if out2.status == 'ok':
                for e, n in redo:
                    nm = harness_name(e, n)
                    if nm in out2.results and out2.results[nm]['status'] in ('success', 'failed'):
                        out.results[nm] = out2.results[nm]
                        out.results[nm]['retried_with_unwind'] = override[nm]
                out.cmds += out2.cmds
            shutil.rmtree(os.path.join(scratch2, 'target0'), ignore_errors=True)
    ev = dict(status=out.status, reason=out.reason, cmds=out.cmds, wall_s=round(out.wall_s, 2), kani_version=out.version,
              injected=out.injected)
    if out.status != 'ok':
        return dict(status='undecided', reason=out.reason, violations=[], evidence=ev, out=out, scratch=scratch)
    vs, undec = [], []
    rows = []
    checks = passed = 0
    ns = set()
    for e, n in pairs:
        nm = harness_name(e, n)
        r = out.results.get(nm)
        if r is None:
            continue
        ns.add(n)
        row = dict(harness=nm, contract=e['fn'], N=n, status=r['status'], checks=r['checks'], failed=r['failed'],
                   unreachable=r.get('unreachable', 0), cover_reached=r['cover_ok'], solver_s=r['time_s'], backend='CBMC 6.11 / CaDiCaL (via Kani %s)' % out.version,
                   features=e.get('features', 'default'))
        rows.append(row)
        checks += r['checks']
        rel_fail = 0
        if r['status'] not in ('success', 'failed') or (r['status'] == 'failed' and r['checks'] == 0 and not r['failures']):
            undec.append('%s: no verification result (%s: timeout, memory limit, crash or compile error)' % (nm, r['status']))
            continue
        if e.get('control'):
            # positive control: this harness MUST fail with the expected tag (e.g. boxed() must trip the allocator stub)
            if not any(e.get('expect_tag') in kanileg.classify_failure(e, f['desc'])[0] for f in r['failures']):
                undec.append('%s: positive control did not fail - the stub/contract it guards is not effective' % nm)
            passed += r['checks'] - r['failed']
            continue
        for f in r['failures']:
            tags, kind = kanileg.classify_failure(e, f['desc'], f.get('loc', ''))
            if kind == 'harness':
                undec.append('%s: harness-internal check failed (%s %s)' % (nm, f['desc'], f['loc']))
                continue
            if kind == 'unwind':
                undec.append('%s: unwinding assertion failed (bound %s too small)' % (nm, e['unwind'](n) if callable(e['unwind']) else e['unwind']))
                continue
            if prop in tags:
                rel_fail += 1
                vs.append(dict(property=prop, leg='kani', function=e['fn'], obligation=f['desc'], n=n, harness=nm,
                               detail='%s at N=%d: %s (%s)' % (e['fn'], n, f['desc'], f['loc']),
                               verifier_output=r['text']))
        if e.get('expect_panic'):
            if not r['failures']:
                undec.append('%s: must-panic harness reached no panic at all (vacuous)' % nm)
        elif r['status'] == 'success' and r['cover_ok'] is False:
            undec.append('%s: end of harness unreachable although no check failed (vacuous)' % nm)
        passed += r['checks'] - r['failed']
    ev.update(harnesses=rows, checks=checks, checks_passed=passed, capacities=sorted(ns), undecided=undec)
    status = 'ok' if not undec else 'partial'
    return dict(status=status, violations=vs, evidence=ev, out=out, scratch=scratch, reason='; '.join(undec))


# ---------------------------------------------------------------------------------------------
# bounded native stand-in (C05 / C06 unwinding paths)

def native_part(prop, tier, tmp, only=None):
    pairs = kanileg.select(prop, tier, only=only, native=True)
    if not pairs:
        return None
    scratch = os.path.join(tmp, 'native')
    logl = []
    ev = dict(kind='BOUNDED stand-in: native execution of the real code with one injected, caught panic per run; '
                   'exhaustive over the odometer domain for each listed capacity; bounded in N; never counted as proved')
    try:
        kanileg.make_scratch(REPO, scratch, kanileg.all_pairs(), logl)
    except Exception as ex:
        return dict(status='undecided', reason='scratch construction failed: %s' % ex, violations=[], evidence=ev, scratch=scratch)
    exe, err = build_native_runner(scratch, '')
    if not exe:
        return dict(status='undecided', reason='native build of the scratch crate failed: ' + err[-400:], violations=[], evidence=ev, scratch=scratch)
    vs, rows, undec = [], [], []
    exe_u = None
    if prop == 'C18':
        exe_u, err_u = build_native_runner(scratch, '--features unstable', toolchain='nightly', tag='unstable')
        if not exe_u:
            undec.append('nightly --features unstable build of the scratch crate failed: ' + err_u[-300:])
        ev['differential'] = ('the same scenario harnesses are enumerated on two native builds of the crate - default features on the stable toolchain and '
                              '`--features unstable` on the nightly toolchain - and the per-run hash of the observable trace (results, contents, destructor / clone order, '
                              'Debug output, caught panics) must be identical for every choice vector')
    for e, n in pairs:
        nm = harness_name(e, n)
        if prop == 'C18':
            if not exe_u:
                continue
            try:
                a = subprocess.run([exe, nm, 'trace', '3000000'], capture_output=True, text=True, timeout=900).stdout.split('\n')
                bq = subprocess.run([exe_u, nm, 'trace', '3000000'], capture_output=True, text=True, timeout=900).stdout.split('\n')
            except subprocess.TimeoutExpired:
                undec.append('%s: trace enumeration timed out' % nm)
                continue
            end_a = [l for l in a if l.startswith('TRACE-END')]
            end_b = [l for l in bq if l.startswith('TRACE-END')]
            la = [l for l in a if l and not l.startswith('TRACE-END')]
            lb = [l for l in bq if l and not l.startswith('TRACE-END')]
            diff = None
            for x, y in zip(la, lb):
                if x != y:
                    diff = (x, y)
                    break
            if diff is None and len(la) != len(lb):
                diff = ('%d runs' % len(la), '%d runs' % len(lb))
            rows.append(dict(scenario=nm, N=n, runs_default=len(la), runs_unstable=len(lb), complete=bool(end_a and 'complete=true' in end_a[0] and end_b and 'complete=true' in end_b[0]), identical=diff is None))
            if not end_a or not end_b or not la:
                undec.append('%s: trace run produced no output' % nm)
            elif diff is not None:
                ch = diff[0].split(' ')[0]
                # verbose traces of the first differing run
                envv = dict(os.environ, VERIF_TRACE_VERBOSE='1')
                va = subprocess.run([exe, nm, 'run', ch], capture_output=True, text=True, timeout=120, env=envv).stdout[-600:]
                vs.append(dict(property=prop, leg='native-bounded', function=e['fn'], obligation='[C18] observable trace differs between the default build and the `unstable` build', n=n, harness=nm,
                               detail='%s at N=%d: default build %r vs unstable build %r' % (e['fn'], n, diff[0][:120], diff[1][:120]), verifier_output='default: %s\nunstable: %s' % diff,
                               prefound=dict(harness=nm, choices=ch, inputs='choice vector ' + ch, message='trace hash differs: default %s / unstable %s' % (diff[0], diff[1]), runs=len(la))))
            continue
        r = replay_search(exe, nm, '', budget=5000000, timeout=900)
        rows.append(dict(scenario=nm, N=n, status=r.get('status'), runs=r.get('runs')))
        if r.get('status') == 'hit':
            msg = r.get('message', '')
            tags = set()
            for m in re.finditer(r'\[([A-Z0-9, ]+)\]', msg):
                tags.update(t.strip() for t in m.group(1).split(','))
            if prop in tags or not tags:
                first = [x for x in msg.split(' || ') if ('[' not in x) or prop in x] or [msg]
                vs.append(dict(property=prop, leg='native-bounded', function=e['fn'], obligation=first[0][:200], n=n, harness=nm,
                               detail='%s at N=%d: %s' % (e['fn'], n, first[0][:300]), verifier_output=msg,
                               prefound=dict(harness=nm, choices=r.get('choices', ''), inputs=r.get('inputs', ''), message=msg, runs=r.get('runs'))))
            else:
                undec.append('%s: scenario failed only clauses of other properties: %s' % (nm, msg[:200]))
        elif r.get('status') != 'exhausted':
            undec.append('%s: enumeration not completed (%s)' % (nm, r.get('status')))
    ev.update(scenarios=rows, undecided=undec)
    return dict(status='ok' if not undec else 'partial', violations=vs, evidence=ev, scratch=scratch, reason='; '.join(undec))


def native_contracts_part(prop, tier, tmp, exe=None, only=None):
    """BOUNDED stand-in beyond Kani's capacities: the harness-encoded contracts of the property are ENUMERATED natively on the
    real code at the capacities listed under ns['native'] (6; 7, 8, 12, 15 for the basic contracts): every layout x small arguments, until exhausted or a
    budget is spent.  A failing clause of this property is a violation with a concrete input; labelled bounded."""
    pairs = []
    for e in HARNESSES:
        if prop not in e['props'] or e.get('native_only') or e.get('kani_only') or e.get('features'):
            continue
        if only and e['fn'] not in only:
            continue
        for n in e['ns'].get('native') or []:
            pairs.append((e, n))
    if not pairs:
        return None
    scratch = os.path.join(tmp, 'native')
    if not exe:
        if not os.path.exists(scratch):
            try:
                kanileg.make_scratch(REPO, scratch, kanileg.all_pairs(), [])
            except Exception as ex:
                return dict(status='undecided', reason='scratch construction failed: %s' % ex, violations=[], evidence={}, scratch=scratch)
        exe, err = build_native_runner(scratch, '')
        if not exe:
            return dict(status='undecided', reason='native build failed: ' + err[-300:], violations=[], evidence={}, scratch=scratch)
    vs, rows = [], []
    t_all = time.time()
    for e, n in pairs:
        nm = harness_name(e, n)
        if time.time() - t_all > (240 if tier == 'quick' else 900):
            rows.append(dict(contract=e['fn'], N=n, status='skipped (time budget of this pass spent)', runs=0))
            continue
        needle = prop + ('+untagged' if prop in e.get('untagged', []) else '')
        r = replay_search(exe, nm, needle, budget=400000 if tier == 'quick' else 2000000, timeout=40 if tier == 'quick' else 150)
        rows.append(dict(contract=e['fn'], N=n, status=r.get('status'), runs=r.get('runs')))
        if r.get('status') == 'hit':
            msg = r.get('message', '')
            first = [x for x in msg.split(' || ') if prop in x] or [msg]
            vs.append(dict(property=prop, leg='native-bounded', function=e['fn'], obligation=first[0][:200], n=n, harness=nm,
                           detail='%s enumerated natively at N=%d: %s' % (e['fn'], n, first[0][:300]), verifier_output=msg,
                           prefound=dict(harness=nm, choices=r.get('choices', ''), inputs=r.get('inputs', ''), message=msg, runs=r.get('runs'))))
    ev = dict(kind='BOUNDED stand-in: the same harness-encoded contracts enumerated natively on the real code at capacities beyond the Kani leg (6 for all; 7, 8, 12, 15 for single-element operations, views and the ZST contract); '
                   'exhausted or cut by a run/time budget as stated per row; never counted as proved', contracts=rows)
    return dict(status='ok', violations=vs, evidence=ev, scratch=scratch, reason='')


# ---------------------------------------------------------------------------------------------
# native replay

RUNNER_MAIN = 'fn main() { circular_buffer::verif_kani::replay_main(); }\n'


def build_native_runner(scratch, features='', toolchain=None, tag='native'):
    """compile the scratch crate natively with --cfg verif_replay + a runner binary; returns path or None"""
    rdir = os.path.join(scratch, 'replay_runner_' + tag)
    os.makedirs(os.path.join(rdir, 'src'), exist_ok=True)
    open(os.path.join(rdir, 'src', 'main.rs'), 'w').write(RUNNER_MAIN)
    feats = ''
    fl = [f for f in features.replace('--features', '').replace(',', ' ').split() if not f.startswith('--')]
    dep = 'circular-buffer = { path = ".."%s }' % ((', features = [%s]' % ', '.join('"%s"' % f for f in fl)) if fl else '')
    open(os.path.join(rdir, 'Cargo.toml'), 'w').write(
        '[package]\nname = "replay_runner"\nversion = "0.0.0"\nedition = "2021"\n\n[dependencies]\n%s\n\n[workspace]\n' % dep)
    env = dict(os.environ)
    env['CARGO_NET_OFFLINE'] = 'true'
    env['RUSTFLAGS'] = '--cfg verif_replay -A warnings'
    env['CARGO_TARGET_DIR'] = os.path.join(scratch, 'target_' + tag)
    cargo = ['cargo'] + (['+' + toolchain] if toolchain else [])
    p = subprocess.run(cargo + ['build', '--offline', '--quiet'], cwd=rdir, env=env, capture_output=True, text=True, timeout=900)
    exe = os.path.join(scratch, 'target_' + tag, 'debug', 'replay_runner')
    if p.returncode != 0 or not os.path.exists(exe):
        return None, (p.stderr or '')[-1500:]
    return exe, ''


def replay_search(exe, harness, needle, budget=300000, timeout=60):
    try:
        p = subprocess.run([exe, harness, 'search', str(budget), needle], capture_output=True, text=True, timeout=timeout)
    except subprocess.TimeoutExpired:
        return dict(status='timeout')
    for ln in p.stdout.split('\n'):
        ln = ln.strip()
        if ln.startswith('{'):
            try:
                return json.loads(ln)
            except Exception:
                pass
    return dict(status='error', stderr=p.stderr[-500:], rc=p.returncode)


def write_replay(v, hit, extra=None):
    os.makedirs(REPLAYS, exist_ok=True)
    key = '%s|%s|%s|%s|%s' % (v['property'], v['leg'], v['function'], v['obligation'], v.get('n'))
    h = hashlib.sha256(key.encode()).hexdigest()[:10]
    path = os.path.join(REPLAYS, '%s-%s-%s.json' % (v['property'], v['leg'], h))
    doc = dict(property=v['property'], leg=v['leg'], function=v['function'], failed_obligation=v['obligation'], N=v.get('n'),
               harness=v.get('harness'), detail=v['detail'], verifier_output=v.get('verifier_output', ''),
               failing_input=hit, how_to_replay='./check %s --replay %s' % (v['property'], path))
    if extra:
        doc.update(extra)
    json.dump(doc, open(path, 'w'), indent=1)
    return path


# which harness-encoded contracts exercise a function of the Verus leg (beyond the obvious c_<fn>)
COVERS = {
    'nth_front': ['c_get'], 'nth_back': ['c_get'], 'front': ['c_get'], 'back': ['c_get'], 'len': ['c_get'], 'capacity': ['c_get'],
    'is_empty': ['c_push_back', 'c_clear'], 'is_full': ['c_push_back', 'c_fill'],
    'nth_front_mut': ['c_get_mut'], 'nth_back_mut': ['c_get_mut'], 'front_mut': ['c_get_mut'], 'back_mut': ['c_get_mut'],
    'as_mut_slices': ['c_as_slices'], 'fill_spare_with': ['c_fill_with'], 'fill_with': ['c_fill_with'], 'fill': ['c_fill'],
    'slices_uninit_mut': ['c_extend_from_slice'], 'default': ['c_new'], 'new': ['c_new'],
    'add_mod': ['c_get', 'c_push_back', 'c_remove', 'c_zst'], 'sub_mod': ['c_push_front', 'c_zst'],
    'inc_start': ['c_push_back', 'c_pop_front'], 'dec_start': ['c_push_front'], 'inc_size': ['c_push_back'], 'dec_size': ['c_pop_back'],
    'front_maybe_uninit': ['c_pop_front', 'c_get'], 'front_maybe_uninit_mut': ['c_push_back', 'c_get_mut'], 'back_maybe_uninit': ['c_pop_back', 'c_get'],
    'back_maybe_uninit_mut': ['c_push_back', 'c_push_front', 'c_get_mut'], 'get_maybe_uninit': ['c_get'], 'get_maybe_uninit_mut': ['c_get_mut'],
    'slice_take_first': ['c_iter_script', 'c_iter_views'], 'slice_take_last': ['c_iter_script'],
    'empty': ['c_iter_script'], 'next': ['c_iter_script', 'c_iter_views', 'c_into_iter'], 'next_back': ['c_iter_script', 'c_into_iter'],
    'size_hint': ['c_iter_script', 'c_into_iter'], 'clone': ['c_iter_script'], 'available_len': ['c_drain'], 'add': ['c_drain'],
}


def related_harnesses(prop, fnkey):
    """harness-encoded contracts exercising the function a Verus obligation belongs to (second opinion / replay search)"""
    name = (fnkey or '').split('::')[-1]
    wanted = set(['c_' + name] + COVERS.get(name, []))
    if fnkey and ('Iter::' in fnkey or 'for Iter' in fnkey) and name in ('new', 'len'):
        wanted.update(['c_iter_script', 'c_iter_views'])
    if fnkey and 'IntoIter' in fnkey:
        wanted.add('c_into_iter')
    out = []
    for e in HARNESSES:
        if e.get('native_only') or e.get('kani_only') or e.get('features') or e.get('name', e['fn']) != e['fn']:
            continue
        if e['fn'] in wanted:
            out.append(e)
    return out


FC_CONTRACTS = {'add_mod': 'fc_add_mod', 'sub_mod': 'fc_sub_mod'}
ARITH_MSG = re.compile(r'arithmetic underflow/overflow|division by zero|possible overflow')


def do_replay(path):
    doc = json.load(open(path))
    if doc.get('property') == 'C18' and doc.get('leg') == 'native-bounded':
        log('C18 differential finding: two builds are needed to replay it; re-running the check instead')
        return None
    hit = doc.get('failing_input') or {}
    if not hit or not hit.get('choices') and hit.get('choices') != '':
        log('replay file carries no concrete input (no-failing-input-found); re-running the check instead')
        return None
    tmp = mktemp('replay')
    try:
        scratch = os.path.join(tmp, 'kani')
        harness = hit['harness']
        # find entry
        pairs = []
        for e in HARNESSES:
            for tier in ('quick', 'thorough'):
                for n in e['ns'].get(tier) or []:
                    if harness_name(e, n) == harness and (e, n) not in pairs:
                        pairs.append((e, n))
        if not pairs:
            log('harness %s no longer exists' % harness)
            return 2
        logl = []
        kanileg.make_scratch(REPO, scratch, kanileg.all_pairs(), logl)
        exe, err = build_native_runner(scratch, pairs[0][0].get('features', ''))
        if not exe:
            log('native build failed: ' + err)
            return 2
        p = subprocess.run([exe, harness, 'run', hit['choices']], capture_output=True, text=True, timeout=120)
        log(p.stdout.strip())
        if p.returncode == 1:
            log('VIOLATION property=%s replay=%s' % (doc['property'], path))
            return 1
        if p.returncode == 0:
            log('replayed input no longer fails on the current tree')
            return 0
        return 2
    finally:
        shutil.rmtree(tmp, ignore_errors=True)


# ---------------------------------------------------------------------------------------------

def build_obligations(prop, tmp):
    """C17: the crate must build without std and with alloc only (rustc compile obligations)"""
    if prop != 'C17':
        return [], []
    vs, rows = [], []
    scratch = os.path.join(tmp, 'build')
    os.makedirs(scratch, exist_ok=True)
    shutil.copytree(os.path.join(REPO, 'src'), os.path.join(scratch, 'src'))
    for f in ('Cargo.toml', 'Cargo.lock'):
        shutil.copy(os.path.join(REPO, f), os.path.join(scratch, f))
    if os.path.isdir(os.path.join(REPO, 'benches')):
        shutil.copytree(os.path.join(REPO, 'benches'), os.path.join(scratch, 'benches'))
    env = dict(os.environ)
    env['CARGO_NET_OFFLINE'] = 'true'
    env['CARGO_TARGET_DIR'] = os.path.join(scratch, 'target')
    for feats in (['--no-default-features'], ['--no-default-features', '--features', 'alloc']):
        cmd = ['cargo', 'check', '--offline', '--lib'] + feats
        p = subprocess.run(cmd, cwd=scratch, env=env, capture_output=True, text=True, timeout=600)
        rows.append(dict(cmd=' '.join(cmd), rc=p.returncode))
        if p.returncode != 0:
            vs.append(dict(property=prop, leg='rustc', function='crate build', obligation='cargo check ' + ' '.join(feats), n='-',
                           detail='the crate does not build with ' + ' '.join(feats), verifier_output=p.stderr[-3000:]))
    return vs, rows


def check(prop, tier, seed, legs=('verus', 'kani'), keep=False, only=None):
    t0 = time.time()
    spec = PROPS[prop]
    tmp = mktemp(prop)
    known, fixed = load_known()
    rc = 0
    try:
        vp = verus_part(prop, tier, seed, tmp) if 'verus' in legs else None
        kp = kani_part(prop, tier, seed, tmp, only=only) if 'kani' in legs else None
        np_ = native_part(prop, tier, tmp, only=only) if 'native' in legs or 'kani' in legs else None
        nc_ = native_contracts_part(prop, tier, tmp, only=only) if 'native' in legs or 'kani' in legs else None
        violations = []
        if np_:
            violations += np_['violations']
        if nc_:
            violations += nc_['violations']
        if vp:
            violations += vp['violations']
        if kp:
            violations += kp['violations']
        bvs, brows = build_obligations(prop, tmp)
        violations += bvs
        if kp and brows:
            kp['evidence']['build_obligations'] = brows
        # dedupe
        seen = set()
        uniq = []
        for v in violations:
            k = (v['leg'], v['function'], v['obligation'], v.get('n'))
            if k not in seen:
                seen.add(k)
                uniq.append(v)
        violations = uniq
        new_v, known_v = [], []
        for v in violations:
            k = matches_known(v, known)
            (known_v if k else new_v).append((v, k))
        # replay search for new violations
        exe_cache = {}
        lines = []
        searched_fns = {}
        search_budget_s = [300.0]
        demoted = []
        for v, _ in new_v:
            hit = None
            cands = []
            if v.get('prefound'):
                hit = v['prefound']
                cands, scratch, feats = [], '', ''
            elif v['leg'] == 'rustc':
                cands, scratch, feats = [], '', ''
            elif v['leg'] == 'kani':
                cands = [(v['harness'], v['obligation'][:60] if v['obligation'].startswith('[') else '')]
                scratch = kp['scratch']
                feats = next((e.get('features', '') for e in HARNESSES if e['fn'] == v['function']), '')
            else:
                # Verus obligation: look for an input through the Kani harnesses of the same function
                scratch = os.path.join(tmp, 'replay_scratch')
                feats = ''
                rel = related_harnesses(prop, v['function'])
                pairs = [(e, n) for e in rel for n in sorted(set((e['ns'].get('thorough') or e['ns'].get('quick') or []) + (e['ns'].get('native') or [])))]
                if pairs and not os.path.exists(scratch):
                    try:
                        kanileg.make_scratch(REPO, scratch, kanileg.all_pairs(), [])
                    except Exception:
                        pairs = []
                tagre = '['
                cands = [(harness_name(e, n), prop) for e, n in pairs]
            # the replay search is only an illustration of a verdict already reached: bound its cost
            if cands and not v.get('prefound'):
                if searched_fns.get(v['function'], 0) >= 2 or search_budget_s[0] <= 0:
                    cands = []
                searched_fns[v['function']] = searched_fns.get(v['function'], 0) + 1
            t_search = time.time()
            all_exhausted = bool(cands)
            if cands and os.path.exists(scratch):
                key = (scratch, feats)
                if key not in exe_cache:
                    exe_cache[key] = build_native_runner(scratch, feats)
                exe, err = exe_cache[key]
                if not exe:
                    all_exhausted = False
                if exe:
                    for hname, needle in cands:
                        r = replay_search(exe, hname, needle)
                        if r.get('status') != 'exhausted':
                            all_exhausted = False
                        if r.get('status') == 'hit':
                            hit = dict(harness=hname, choices=r.get('choices', ''), inputs=r.get('inputs', ''), message=r.get('message', ''), runs=r.get('runs'))
                            break
            search_budget_s[0] -= (time.time() - t_search)
            # a function that carries an attribute-form Kani contract: if proof_for_contract just PROVED the same contract for
            # all 64-bit arguments (loop-free, complete), an undischarged Verus postcondition of that function is a lost proof
            fc = FC_CONTRACTS.get((v.get('function') or '').split('::')[-1]) if v['leg'] == 'verus' else None
            fc_proved = False
            if fc and kp and kp.get('out') is not None:
                r_fc = kp['out'].results.get('h_%s_n0' % fc)
                fc_proved = bool(r_fc and r_fc['status'] == 'success' and r_fc['checks'] > 0)
            if fc_proved and not hit and not ARITH_MSG.search(v.get('verus_msg', '')):
                demoted.append(v)
                log('note: verus obligation `%s` in %s is no longer discharged (%s), but Kani just proved the same function contract for all 64-bit arguments (%s, complete): '
                    'treated as a lost proof (undecided), not as a violation' % (v['obligation'], v['function'], v.get('verus_msg', ''), fc))
                search_budget_s[0] -= (time.time() - t_search)
                continue
            if (v['leg'] == 'verus' and not hit and all_exhausted and not ARITH_MSG.search(v.get('verus_msg', ''))
                    and not any(w['leg'] != 'verus' and w['property'] == prop for w, _ in new_v)):
                # Triage of an undischarged FUNCTIONAL obligation (tool limit vs. real defect): the same contract, as
                # harness-encoded for Kani, was just enumerated exhaustively on the real code for every layout and
                # small argument of capacities 0..5 without a failing input, no other leg reports this property, and the
                # obligation is not arithmetic (overflow / division freedom for huge capacities is what only Verus can
                # decide, so those always stand).  This is a lost proof: undecided, not a violation.
                demoted.append(v)
                log('note: verus obligation `%s` in %s is no longer discharged (%s), but the exhaustive native enumeration of the same contract (%s) finds no failing input: '
                    'treated as a lost proof (undecided), not as a violation' % (v['obligation'], v['function'], v.get('verus_msg', ''), ', '.join(c[0] for c in cands[:6])))
                continue
            path = write_replay(v, hit)
            suffix = '' if hit else ' no-failing-input-found'
            lines.append('VIOLATION property=%s replay=%s%s' % (prop, path, suffix))
            log('  failed obligation: [%s] %s' % (v['leg'], v['detail']))
            if hit:
                log('  failing input (native run of the real code): %s -> %s' % (hit['inputs'], hit['message']))
        for v, k in known_v:
            log('KNOWN-FINDING: property=%s %s (%s leg: %s)' % (prop, k['what'] or v['detail'], v['leg'], v['detail']))
        for ln in lines:
            log(ln)
        undecided_all = True
        statuses = []
        for part in (vp, kp, np_, nc_):
            if part:
                statuses.append(part['status'])
        new_v = [(v, k) for v, k in new_v if v not in demoted]
        if demoted and vp:
            vp['status'] = 'partial'
            vp['reason'] = (vp.get('reason') or '') + '; lost proofs: ' + ', '.join('%s/%s' % (v['function'], v['obligation']) for v in demoted)
            vp['evidence'].setdefault('undecided', []).extend(dict(function=v['function'], obligation=v['obligation'], reason='lost proof: ' + v.get('verus_msg', '')) for v in demoted)
        if new_v:
            rc = 1
        elif not statuses or all(s == 'undecided' for s in statuses):
            rc = 2
            log('UNDECIDED property=%s: %s' % (prop, '; '.join(p['reason'] for p in (vp, kp) if p and p.get('reason'))))
        else:
            for part, nm in ((vp, 'verus'), (kp, 'kani'), (np_, 'native bounded stand-in')):
                if part and part['status'] != 'ok':
                    log('note: %s leg %s: %s' % (nm, part['status'], part.get('reason', '')))
        write_evidence(prop, tier, seed, spec, vp, kp, new_v, known_v, fixed, time.time() - t0, np_, nc_)
        if rc == 0:
            log('OK property=%s tier=%s wall=%.1fs' % (prop, tier, time.time() - t0))
    finally:
        if keep:
            log('scratch kept at ' + tmp)
        else:
            shutil.rmtree(tmp, ignore_errors=True)
    return rc


def write_evidence(prop, tier, seed, spec, vp, kp, new_v, known_v, fixed, wall, np_=None, nc_=None):
    os.makedirs(EVID, exist_ok=True)
    level = spec['level']
    cov = {}
    assumptions = list(spec.get('assumptions', []))
    vev = vp['evidence'] if vp else None
    kev = kp['evidence'] if kp else None
    verus_ok = bool(vp and vp['status'] in ('ok', 'partial') and vev.get('obligations'))
    if level == 'proof' and not verus_ok:
        # the unbounded leg did not decide anything in this run: do not claim a proof
        level = 'other'
    if level == 'proof' and vev['discharged'] != vev['obligations']:
        # some obligation was not discharged in this run (failed, or the solver did not finish): no proof is claimed for this run
        level = 'other'
    if level == 'proof':
        cov['obligations'] = vev['obligations']
        cov['discharged'] = vev['discharged']
        cov['checker_cmd'] = vev['cmd']
        cov['trusted_base'] = vev['trusted_base']
        cov['samples'] = vev['samples']
    else:
        tb = list(vev['trusted_base']) if verus_ok else []
        cov['trusted_base'] = tb
        cov['samples'] = (vev['samples'] if verus_ok else [])
        if kev and kev.get('harnesses'):
            cov['samples'] = cov['samples'] + ['%s (N=%d): %d checks, %d failed' % (r['contract'], r['N'], r['checks'], r['failed']) for r in kev['harnesses'][:8]]
        if verus_ok:
            cov['unbounded_obligations'] = vev['obligations']
            cov['unbounded_discharged'] = vev['discharged']
            cov['checker_cmd'] = vev['cmd']
    expl = spec['explanation']
    cov['explanation'] = expl
    cov['exhaustive'] = False
    if vev:
        cov['verus_leg'] = {k: v for k, v in vev.items() if k not in ('samples', 'trusted_base')}
    if kev:
        cov['kani_leg_bounded_in_N'] = kev
        cov['bounded_stand_in'] = ('Kani contract harnesses are complete per instantiated capacity N in %s and per element type; '
                                   'they are BOUNDED IN N and are not counted in obligations/discharged' % (kev.get('capacities'),))
    if np_:
        cov['bounded_native_stand_in'] = np_['evidence']
    if nc_ and nc_.get('evidence'):
        cov['bounded_native_enumeration_of_contracts_beyond_kani_capacities'] = nc_['evidence']
    cov['functions_under_contract'] = sorted(set([r['function'] for r in (vev or {}).get('functions', [])] +
                                                 [r['contract'] for r in (kev or {}).get('harnesses', [])]))
    cov['not_covered'] = spec.get('not_covered', [])
    cov['known_findings_reported'] = [dict(leg=v['leg'], function=v['function'], obligation=v['obligation'], n=v.get('n')) for v, _ in known_v]
    cov['violations_reported'] = [dict(leg=v['leg'], function=v['function'], obligation=v['obligation'], n=v.get('n')) for v, _ in new_v]
    if not cov.get('samples'):
        cov['samples'] = ['(no obligation generated in this run)']
    doc = dict(property_id=prop, tier=tier, seed=int(seed or 0), level=level, coverage=cov, assumptions=assumptions,
               wall_s=round(wall, 2), violations=len(new_v))
    json.dump(doc, open(os.path.join(EVID, prop + '.json'), 'w'), indent=1)


def main(argv):
    import argparse
    ap = argparse.ArgumentParser()
    ap.add_argument('prop')
    ap.add_argument('--tier', default=os.environ.get('VERIF_TIER', 'quick'))
    ap.add_argument('--replay')
    ap.add_argument('--legs', default='verus,kani')
    ap.add_argument('--keep', action='store_true')
    ap.add_argument('--only', help='comma separated contract fn names (debugging)')
    a = ap.parse_args(argv)
    seed = int(os.environ.get('VERIF_SEED', '0') or 0)
    if a.prop == 'selftest':
        # not a property check: the machinery against the seeded changes (private copies of /repo; slow)
        return subprocess.call([os.path.join(VERIF, 'tools', 'run_seeded.py'), '--tier', a.tier])
    if a.prop not in PROPS:
        log('unknown property %s' % a.prop)
        return 2
    if a.tier not in ('quick', 'thorough'):
        a.tier = 'quick'
    if a.replay:
        r = do_replay(a.replay)
        if r is not None:
            return r
    return check(a.prop, a.tier, seed, legs=tuple(a.legs.split(',')), keep=a.keep, only=a.only.split(',') if a.only else None)
