#!/usr/bin/env python3
"""regenerate /verif/MANIFEST.json from vlib/props.py (run after editing props.py)"""
import json, os, sys
VERIF = os.path.dirname(os.path.dirname(os.path.abspath(__file__)))
sys.path.insert(0, VERIF)
from vlib.props import PROPS, NOT_APPLICABLE, TECHNIQUE, LEVEL_TEXT, DESIGN_REF

all_ids = [json.loads(l)['id'] for l in open(os.path.join(VERIF, 'properties.jsonl'))]
checks = []
for pid in all_ids:
    if pid not in PROPS:
        continue
    sp = PROPS[pid]
    checks.append({
        'property_id': pid,
        'quick_cmd': './check %s --tier quick' % pid,
        'thorough_cmd': './check %s --tier thorough' % pid,
        'evidence_file': 'evidence/%s.json' % pid,
        'replay_cmd_template': './check %s --replay {path}' % pid,
        'engine': 'contracts',
        'level_claimed': {'category': sp['level'], 'text': LEVEL_TEXT.get(pid, sp['explanation']), 'design_ref': DESIGN_REF.get(pid, 'DESIGN.md section 6, ' + pid)},
        'level_note': '; '.join(sp['assumptions'])[:1800],
        'technique': TECHNIQUE.get(pid, 'contract-based deductive verification (Verus + Kani function contracts)'),
    })
na = [{'property_id': pid, 'reason': NOT_APPLICABLE[pid]} for pid in all_ids if pid not in PROPS]
m = {
    'version': 1,
    'setup_cmd': './tools/setup.sh',
    'hooks': {
        'guard': 'kani',
        'enable': 'no hooks live in /repo: every check copies /repo (src, Cargo.toml, Cargo.lock, benches) to a scratch directory and ADDS there contract attributes (#[cfg_attr(kani, ...)]) and `#[cfg(any(kani, verif_replay))] pub mod verif_kani;`; the Verus leg extracts the functions mechanically from /repo/src into one verus! file',
        'baseline_off_cmd': 'cd /repo && cargo test --workspace --no-fail-fast --offline',
        'source_commits': [],
        'add_only': True,
    },
    'engines': [
        {'name': 'contracts', 'path': 'check', 'serves_properties': [c['property_id'] for c in checks],
         'kind_free_text': 'contract-based deductive verification: Verus 0.2026.09.13 on functions extracted mechanically from /repo/src on every run (unbounded in N, T, layout, arguments) + Kani 0.68 contract harnesses on the unmodified crate (complete per capacity, bounded in N) + native replay search for refutations'},
    ],
    'checks': checks,
    'not_applicable': na,
    'notes': ('Six genuine defects were found by the checks on the pinned tree and repaired with `fix:` commits in /repo (15857a9, 4f3a4f8, 0a22c55, 1fc2890, d104d25, 1c5b459); '
              'they are recorded as `fixed:` lines in known_findings.txt (no `known:` entries remain). /repo carries no hooks: all instrumentation is added to scratch copies. '
              'Properties C05, C06, C07/C13 (Debug), C11 (post-panic state), C18 and C19 (N = usize::MAX) additionally carry native BOUNDED stand-ins, labelled bounded in the evidence and never counted as proved. '
              '`./check selftest` runs the machinery against the 60 seeded changes in seeded/ (results in seeded/RESULTS.md). See DESIGN.md sections 11-12.'),
}
json.dump(m, open(os.path.join(VERIF, 'MANIFEST.json'), 'w'), indent=1)
print('MANIFEST.json: %d checks, %d not_applicable' % (len(checks), len(na)))
