#![allow(static_mut_refs)]
use crate::*;

pub(crate) const MAXID: usize = 32;
static mut DROPS: [u8; MAXID] = [0; MAXID];
static mut NEXT: usize = 0;
/// window of the watched buffer: base address of items, N, and pointers to start/size
static mut W_ITEMS: usize = 0;
static mut W_N: usize = 0;
static mut W_START: *const usize = core::ptr::null();
static mut W_SIZE: *const usize = core::ptr::null();

pub(crate) struct Tok { id: u8 }

impl Tok {
    fn fresh() -> Tok { unsafe { let id = NEXT; NEXT += 1; assert!(id < MAXID); Tok { id: id as u8 } } }
}

impl Drop for Tok {
    fn drop(&mut self) {
        unsafe {
            // exactly-once
            assert!(DROPS[self.id as usize] == 0, "double drop");
            DROPS[self.id as usize] += 1;
            // destructor-time window exclusion (C05)
            if W_N > 0 {
                let addr = self as *const Tok as usize;
                let off = addr.wrapping_sub(W_ITEMS);
                if off < W_N * core::mem::size_of::<Tok>() {
                    let p = off / core::mem::size_of::<Tok>();
                    let rel = sub_mod(p, *W_START, W_N);
                    assert!(rel >= *W_SIZE, "destructor runs on an element still inside the committed window");
                }
            }
        }
    }
}

fn watch<const N: usize>(b: &CircularBuffer<N, Tok>) {
    unsafe {
        W_ITEMS = b.items.as_ptr() as usize;
        W_N = N;
        W_START = &b.start;
        W_SIZE = &b.size;
    }
}

fn any_buf<const N: usize>() -> CircularBuffer<N, Tok> {
    let mut b = CircularBuffer::<N, Tok>::new();
    let start: usize = kani::any();
    let size: usize = kani::any();
    kani::assume(if N == 0 { start == 0 && size == 0 } else { start < N && size <= N });
    b.start = start;
    b.size = size;
    let mut i = 0;
    while i < size {
        let p = add_mod(start, i, N);
        b.items[p].write(Tok::fresh());
        i += 1;
    }
    b
}

fn id_at<const N: usize>(b: &CircularBuffer<N, Tok>, i: usize) -> u8 {
    unsafe { (*b.items[add_mod(b.start, i, N)].as_ptr()).id }
}

#[kani::proof]
#[kani::unwind(6)]
fn truncate_back_ledger_n3() {
    const N: usize = 3;
    let mut b = any_buf::<N>();
    let old_len = b.len();
    let len: usize = kani::any();
    b.truncate_back(len);
    let new_len = if len < old_len { len } else { old_len };
    assert!(b.len() == new_len);
    let mut i = 0;
    while i < old_len {
        if i < new_len { assert!(id_at(&b, i) == i as u8); assert!(unsafe { DROPS[i] } == 0); }
        else { assert!(unsafe { DROPS[i] } == 1); }
        i += 1;
    }
    core::mem::forget(b);
}

#[kani::proof]
#[kani::unwind(6)]
fn truncate_back_window_n3() {
    const N: usize = 3;
    let mut b = any_buf::<N>();
    watch(&b);
    let len: usize = kani::any();
    b.truncate_back(len);
    core::mem::forget(b);
}

#[kani::proof]
#[kani::unwind(6)]
fn uninit_get_n3() {
    const N: usize = 3;
    let b = any_buf::<N>();
    let i: usize = kani::any();
    if let Some(t) = b.get(i) { assert!(t.id as usize == i); }
    let (a, c) = b.as_slices();
    assert!(a.len() + c.len() == b.len());
    if a.len() > 0 { assert!(a[0].id == 0); }
    core::mem::forget(b);
}

// deliberately wrong: reads one slot past the window
#[kani::proof]
#[kani::unwind(6)]
fn uninit_bad_n3() {
    const N: usize = 3;
    let b = any_buf::<N>();
    kani::assume(b.size < N);
    let x = unsafe { (*b.items[add_mod(b.start, b.size, N)].as_ptr()).id };
    assert!(x == x);
    core::mem::forget(b);
}

pub(crate) struct Z;
static mut ZDROPS: usize = 0;
impl Drop for Z { fn drop(&mut self) { unsafe { ZDROPS += 1; } } }

#[kani::proof]
#[kani::unwind(6)]
fn zst_huge() {
    const N: usize = usize::MAX;
    let mut b = CircularBuffer::<N, Z>::new();
    let start: usize = kani::any();
    let size: usize = kani::any();
    kani::assume(start < N && size <= 3);
    b.start = start; b.size = size;
    let r = b.push_back(Z);
    assert!(r.is_none());
    assert!(b.len() == size + 1);
    let r = b.pop_front();
    assert!(r.is_some());
    core::mem::forget(r);
    assert!(b.len() == size);
    b.push_front(Z);
    let x = b.remove(1);
    assert!(x.is_some() == (size >= 1));
    core::mem::forget(x);
    b.truncate_front(1);
    assert!(b.len() == 1);
    assert!(unsafe { ZDROPS } == size - (if size >= 1 {1} else {0}));
    core::mem::forget(b);
}

fn drain_script<const N: usize>() {
    let mut b = any_buf::<N>();
    let len = b.len();
    let a: usize = kani::any();
    let e: usize = kani::any();
    kani::assume(a <= e && e <= len);
    let steps: usize = kani::any();
    kani::assume(steps <= N + 1);
    {
        let mut d = b.drain(a..e);
        let mut lo = a; let mut hi = e;
        let mut k = 0;
        while k < steps {
            assert!(d.len() == hi - lo);
            if kani::any() {
                match d.next() { Some(t) => { assert!(lo < hi && t.id as usize == lo); lo += 1; core::mem::forget(t); } None => assert!(lo == hi) }
            } else {
                match d.next_back() { Some(t) => { assert!(lo < hi && t.id as usize == hi - 1); hi -= 1; core::mem::forget(t); } None => assert!(lo == hi) }
            }
            k += 1;
        }
        // ledger: nothing dropped yet
        let mut i = 0; while i < len { assert!(unsafe { DROPS[i] } == 0); i += 1; }
        drop(d);
        let mut i = a; while i < e { assert!(unsafe { DROPS[i] } == if i >= lo && i < hi { 1 } else { 0 }); i += 1; }
    }
    assert!(b.len() == len - (e - a));
    let mut i = 0;
    while i < b.len() {
        let want = if i < a { i } else { i + (e - a) };
        assert!(id_at(&b, i) as usize == want);
        assert!(unsafe { DROPS[want] } == 0);
        i += 1;
    }
    core::mem::forget(b);
}

#[kani::proof] #[kani::unwind(7)] fn drain_n0() { drain_script::<0>() }
#[kani::proof] #[kani::unwind(7)] fn drain_n1() { drain_script::<1>() }
#[kani::proof] #[kani::unwind(7)] fn drain_n3() { drain_script::<3>() }
#[kani::proof] #[kani::unwind(8)] fn drain_n4() { drain_script::<4>() }
#[kani::proof] #[kani::unwind(9)] fn drain_n5() { drain_script::<5>() }

unsafe fn no_alloc(_l: core::alloc::Layout) -> *mut u8 { panic!("heap allocation") }

#[kani::proof]
#[kani::stub(std::alloc::alloc, no_alloc)]
#[kani::unwind(6)]
fn alloc_boxed() {
    let b = CircularBuffer::<2, u8>::boxed();
    assert!(b.len() == 0);
}

#[kani::proof]
#[kani::stub(std::alloc::alloc, no_alloc)]
#[kani::unwind(6)]
fn alloc_remove() {
    let mut b = any_buf::<3>();
    watch(&b);
    let i: usize = kani::any();
    let r = b.remove(i);
    core::mem::forget(r);
    core::mem::forget(b);
}

#[cfg(feature = "embedded-io")]
#[kani::proof]
#[kani::unwind(8)]
fn eio_write_read_n3() {
    const N: usize = 3;
    let mut b = CircularBuffer::<N, u8>::new();
    let start: usize = kani::any();
    kani::assume(start < N);
    b.start = start;
    let src: [u8; 5] = kani::any();
    let n: usize = kani::any();
    kani::assume(n <= 5);
    let w = ::embedded_io::Write::write(&mut b, &src[..n]).unwrap();
    assert!(w == n);
    assert!(b.len() == if n < N { n } else { N });
    let mut dst = [0u8; 2];
    let r = ::embedded_io::Read::read(&mut b, &mut dst).unwrap();
    assert!(r == if n < 2 { n } else { 2 });
    if r > 0 { assert!(dst[0] == src[if n <= N { 0 } else { n - N }]); }
}

#[cfg(feature = "embedded-io-async")]
#[kani::proof]
#[kani::unwind(8)]
fn eio_async_ready_n3() {
    use core::future::Future;
    use core::task::{Context, Poll, RawWaker, RawWakerVTable, Waker};
    const VT: RawWakerVTable = RawWakerVTable::new(|_| RawWaker::new(core::ptr::null(), &VT), |_| {}, |_| {}, |_| {});
    let waker = unsafe { Waker::from_raw(RawWaker::new(core::ptr::null(), &VT)) };
    let mut cx = Context::from_waker(&waker);
    const N: usize = 3;
    let mut b = CircularBuffer::<N, u8>::new();
    let src: [u8; 4] = kani::any();
    let fut = ::embedded_io_async::Write::write(&mut b, &src);
    let mut fut = core::pin::pin!(fut);
    match fut.as_mut().poll(&mut cx) { Poll::Ready(Ok(n)) => assert!(n == 4), _ => panic!("pending") }
}

impl Clone for Tok { fn clone(&self) -> Tok { let t = Tok::fresh(); unsafe { PARENT[t.id as usize] = self.id; } t } }
static mut PARENT: [u8; MAXID] = [255; MAXID];

fn efs<const N: usize, const L: usize>() {
    let mut b = any_buf::<N>();
    watch(&b);
    let old_len = b.len();
    let src: [Tok; L] = core::array::from_fn(|_| Tok::fresh());
    let first_src = src[0].id as usize; // ids old_len..old_len+L
    let n: usize = kani::any();
    kani::assume(n <= L);
    b.extend_from_slice(&src[..n]);
    // expected: last N of (old ++ clones(src[..n]))
    let total = old_len + n;
    let keep = if total < N { total } else { N };
    assert!(b.len() == keep);
    let skip = total - keep;
    let mut i = 0;
    while i < keep {
        let j = skip + i; // index in old ++ src
        let id = id_at(&b, i) as usize;
        if j < old_len { assert!(id == j); assert!(unsafe { DROPS[j] } == 0); }
        else { assert!(unsafe { PARENT[id] } as usize == first_src + (j - old_len)); assert!(unsafe { DROPS[id] } == 0); }
        i += 1;
    }
    // evicted old elements destroyed exactly once
    let mut j = 0;
    while j < old_len { if j < skip { assert!(unsafe { DROPS[j] } == 1); } j += 1; }
    core::mem::forget(b); core::mem::forget(src);
}
#[kani::proof] #[kani::unwind(9)] fn efs_n3() { efs::<3, 7>() }
#[kani::proof] #[kani::unwind(13)] fn efs_n5() { efs::<5, 11>() }

fn any_u8buf<const N: usize>() -> CircularBuffer<N, u8> {
    let mut b = CircularBuffer::<N, u8>::new();
    let start: usize = kani::any(); let size: usize = kani::any();
    kani::assume(if N == 0 { start == 0 && size == 0 } else { start < N && size <= N });
    b.start = start; b.size = size;
    let mut i = 0; while i < size { b.items[add_mod(start, i, N)].write(kani::any()); i += 1; }
    b
}
fn eq_pair<const N: usize, const M: usize>() {
    let a = any_u8buf::<N>(); let b = any_u8buf::<M>();
    let mut same = a.len() == b.len();
    let mut i = 0;
    while i < a.len() && i < b.len() { if a.get(i) != b.get(i) { same = false; } i += 1; }
    assert!((a == b) == same);
}
#[kani::proof] #[kani::unwind(6)] fn eq_3_3() { eq_pair::<3, 3>() }
#[kani::proof] #[kani::unwind(6)] fn eq_2_4() { eq_pair::<2, 4>() }

use core::ops::Bound;
fn any_bound() -> Bound<usize> {
    let k: u8 = kani::any(); let v: usize = kani::any();
    if k == 0 { Bound::Included(v) } else if k == 1 { Bound::Excluded(v) } else { Bound::Unbounded }
}
fn bounds_to_range(lo: Bound<usize>, hi: Bound<usize>, len: usize) -> Option<(usize, usize)> {
    // mathematical (start, end) in u128 to avoid overflow; None if outside the documented domain
    let s: u128 = match lo { Bound::Included(x) => x as u128, Bound::Excluded(x) => x as u128 + 1, Bound::Unbounded => 0 };
    let e: u128 = match hi { Bound::Included(x) => x as u128 + 1, Bound::Excluded(x) => x as u128, Bound::Unbounded => len as u128 };
    if s <= e && e <= len as u128 { Some((s as usize, e as usize)) } else { None }
}

#[kani::proof] #[kani::unwind(6)]
fn range_total_n3() {
    let b = any_buf::<3>();
    let (lo, hi) = (any_bound(), any_bound());
    if let Some((s, e)) = bounds_to_range(lo, hi, b.len()) {
        let mut it = b.range((lo, hi));
        assert!(it.len() == e - s);
        let mut i = s;
        while i < e { let t = it.next().unwrap(); assert!(t.id as usize == i); i += 1; }
        assert!(it.next().is_none());
    }
    core::mem::forget(b);
}

#[kani::proof] #[kani::unwind(6)]
fn range_must_panic_n3() {
    let b = any_buf::<3>();
    let (lo, hi) = (any_bound(), any_bound());
    if bounds_to_range(lo, hi, b.len()).is_none() {
        let it = b.range((lo, hi));
        assert!(false, "MUST-PANIC-MARKER: range() returned for an invalid range");
        core::mem::forget(it);
    }
    core::mem::forget(b);
}
