"""Table of Kani contract harnesses: generic contract fn in contracts/kani/*.rs x capacities.

props    : properties whose tagged assertions live in the harness
untagged : properties for which an UNTAGGED failing check (the crate's own assert!/debug_assert!/
           expect, arithmetic overflow, out-of-bounds, invalid pointer) counts as a violation.
           Default: props & TOTAL (properties whose statement includes "returns normally /
           never panics") - plus C11 which every operation harness serves.
ns       : capacities per tier (thorough defaults to quick if absent)
unwind   : loop bound as a function of N (unwinding assertions stay ON: a too-small bound is
           reported as 'undecided', never as a pass)
"""

TOTAL = {'C01', 'C09', 'C11', 'C14', 'C16', 'C19'}

Q = [0, 1, 3]
T = [0, 1, 2, 3, 4, 5]


def harness_name(e, n):
    return 'h_%s_n%d' % (e.get('name', e['fn']), n)


def H(fn, props, ns_q=Q, ns_t=T, unwind=lambda n: n + 4, **kw):
    props = props.split()
    e = dict(fn=fn, props=props, ns={'quick': ns_q, 'thorough': ns_t}, unwind=unwind)
    e.update(kw)
    if 'untagged' not in e:
        e['untagged'] = sorted(set(props) & TOTAL)
    else:
        e['untagged'] = e['untagged'].split()
    return e


def W(fn, props, **kw):
    """watched variant of a contract: same function with the C05/C06 destructor / user-code
    preconditions armed (they are expensive for CBMC, so they get their own harness)"""
    kw.setdefault('ns_q', [1, 2])
    kw.setdefault('ns_t', [1, 2, 3])
    gen = kw.pop('gen', None)
    if gen:
        call = lambda n, g=gen: '{ enable_watch(); %s }' % g(n)
    else:
        call = lambda n, f=fn: '{ enable_watch(); %s::<%d>() }' % (f, n)
    return H(fn, props, name=fn + '_w', call=call, untagged='', **kw)


HARNESSES = [
    # single-element insertion / removal
    H('c_push_back', 'C01 C02 C03 C04 C11 C20'),
    H('c_push_front', 'C01 C02 C03 C04 C11 C20'),
    H('c_try_push_back', 'C01 C02 C03 C04 C11 C20'),
    H('c_try_push_front', 'C01 C02 C03 C04 C11 C20'),
    H('c_pop_back', 'C01 C03 C04 C11 C20'),
    H('c_pop_front', 'C01 C03 C04 C11 C20'),
    H('c_remove', 'C01 C03 C04 C11 C20'),
    H('c_swap', 'C01 C03 C04 C11 C20', ns_q=[1, 3], ns_t=[1, 2, 3, 4, 5]),
    H('c_swap_remove_back', 'C01 C03 C04 C11 C20'),
    H('c_swap_remove_front', 'C01 C03 C04 C11 C20'),
    H('c_truncate_back', 'C01 C03 C04 C11 C20'),
    H('c_truncate_front', 'C01 C03 C04 C11 C20'),
    H('c_clear', 'C01 C03 C04 C11'),
    H('c_drop_buffer', 'C03 C11'),
    # views
    H('c_make_contiguous', 'C01 C03 C04 C07 C11 C20', stubs=[('core::slice::rotate::ptr_rotate', 'ptr_rotate_model')], unwind=lambda n: n + 4),
    H('c_get', 'C01 C04 C07 C11 C20'),
    H('c_get_mut', 'C01 C04 C07 C11 C20'),
    H('c_as_slices', 'C04 C07 C11 C20'),
    H('c_iter_views', 'C04 C07 C08 C11'),
    # fill family
    H('c_fill_spare', 'C01 C03 C04 C11'),
    H('c_fill', 'C01 C03 C04 C11'),
    H('c_fill_with', 'C01 C03 C04 C11'),
    # bulk insertion / conversions
    H('c_extend', 'C01 C03 C04 C11 C12', unwind=lambda n: n + 5),
    H('c_from_iter', 'C03 C11 C12', unwind=lambda n: n + 5),
    H('c_extend_from_slice', 'C01 C03 C04 C11', call=lambda n: 'c_extend_from_slice::<%d, %d>()' % (n, n + 2), unwind=lambda n: n + 5),
    H('c_new', 'C11 C12'),
    H('c_boxed', 'C12', cfg='feature = "alloc"', ns_q=[0, 3], ns_t=[0, 1, 3]),
    H('c_clone', 'C03 C04 C11 C12'),
    H('c_clone_from', 'C03 C04 C11 C12', ns_q=[0, 1, 2], ns_t=[0, 1, 2, 3, 4]),
    H('c_to_vec', 'C03 C04 C07 C12', cfg='feature = "alloc"', ns_q=[0, 2], ns_t=[0, 1, 2, 3]),
    H('c_into_iter', 'C03 C04 C08 C11 C12'),
]
HARNESSES += [
    # destructor precondition (C05) / user-code precondition (C06) variants
    W('c_truncate_back', 'C05'), W('c_truncate_front', 'C05'), W('c_clear', 'C05'), W('c_drop_buffer', 'C05'),
    W('c_fill_spare', 'C06'), W('c_fill', 'C05 C06'), W('c_fill_with', 'C05 C06'),
    W('c_extend', 'C06', unwind=lambda n: n + 5),
    W('c_extend_from_slice', 'C05 C06', gen=lambda n: 'c_extend_from_slice::<%d, %d>()' % (n, n + 2), unwind=lambda n: n + 5),
    W('c_clone', 'C06'), W('c_clone_from', 'C05 C06', ns_q=[1, 2], ns_t=[1, 2, 3]),
    W('c_to_vec', 'C06', cfg='feature = "alloc"', ns_q=[2], ns_t=[1, 2, 3]),
]
# From<[T; M]>: (N, M) grid
for _n, _m, _tier in [(0, 0, 'q'), (0, 2, 'q'), (2, 0, 'q'), (2, 2, 'q'), (2, 3, 'q'), (3, 1, 'q'), (1, 3, 't'), (3, 3, 't'), (3, 5, 't'), (2, 5, 't'), (4, 2, 't'), (1, 1, 't')]:
    HARNESSES.append(H('c_from_array', 'C03 C11 C12', name='c_from_array_m%d' % _m, call='c_from_array::<{N}, %d>()' % _m,
                       ns_q=[_n] if _tier == 'q' else [], ns_t=[_n], unwind=lambda n, m=_m: n + m + 4))

