// BOUNDED STAND-IN (native only, never compiled under Kani): the unwinding paths of C05 / C06.
// Neither Verus nor Kani executes unwinding, so what the crate's guard objects do *during* a panic
// is outside the contracts.  These scenarios run the REAL code natively, inject one real panic
// (the k-th destructor entry, or the k-th user-code entry: clone / closure / iterator / eq), catch
// it, and check the post-panic contract of the property statement.  The odometer enumerates every
// layout of a capacity-N buffer x operation x argument x k: exhaustive for the stated N, bounded
// in N, labelled "bounded" in the evidence and never counted as proved.

use std::panic::{catch_unwind, AssertUnwindSafe};

fn scenario_begin() { unsafe { SCENARIO = true; PANIC_AT_DROP = 0; PANIC_AT_CALLBACK = 0; DROP_ENTRIES = 0; CALLBACKS = 0; } }
fn disarm() { unsafe { PANIC_AT_DROP = 0; PANIC_AT_CALLBACK = 0; } }

/// post-panic contract of C05/C06 for the buffer itself: valid sequence of live, distinct elements
/// with a consistent length, which keeps behaving like a normal buffer
fn buffer_valid_after_panic<const N: usize>(b: &mut CircularBuffer<N, Tok>, what: &'static str) {
    if !wf(b) { nd::record_failure("[C05,C06] after the caught panic: start/size out of range"); return; }
    let s = ids_of(b);
    nd::trace(format!("after:{:?}", b));
    let mut i = 0;
    while i < s.len {
        let id = s.a[i] as usize;
        if id >= MAXID || drops(id) != 0 { nd::record_failure("[C05,C06] after the caught panic: the buffer holds a destroyed (or garbage) element"); }
        let mut j = 0; while j < i { if s.a[j] == s.a[i] { nd::record_failure("[C05,C06] after the caught panic: the buffer holds an element twice"); } j += 1; }
        i += 1;
    }
    if b.len() != s.len || b.is_empty() != (s.len == 0) || b.is_full() != (s.len == N) { nd::record_failure("[C05,C06] after the caught panic: inconsistent length"); }
    // behaves normally
    let x = Tok::fresh(); let xid = x.id;
    let mut m = s;
    let r = b.push_back(x); let mr = m.push_back_capped(xid, N);
    if opt_id(&r) != mr || !ids_of(b).eq(&m) { nd::record_failure("[C05,C06] after the caught panic: push_back does not behave like the model"); }
    drop(r);
    let r = b.pop_front(); let mr = m.pop_front();
    if opt_id(&r) != mr || !ids_of(b).eq(&m) { nd::record_failure("[C05,C06] after the caught panic: pop_front does not behave like the model"); }
    drop(r);
}

fn no_double_drop() { let mut id = 0; while id < next_id() { if drops(id) > 1 { nd::record_failure("[C03,C05,C06] an element was destroyed twice"); } id += 1; } }
fn nothing_leaked() { let mut id = 0; while id < next_id() { if drops(id) == 0 { nd::record_failure("[C06] an element that was successfully created was never destroyed (leak)"); } id += 1; } }

/// C05: the k-th element destructor panics inside an element-destroying operation
pub(crate) fn p_destructor_panic<const N: usize>() {
    scenario_begin();
    let mut b = any_tokbuf::<N>();
    let op = nd::usize_in(0, 9);
    let arg = nd::usize_in(0, N + 1);
    let k = nd::usize_in(1, N + 2);
    let src: [Tok; 6] = core::array::from_fn(|_| Tok::fresh());
    let mut other = CircularBuffer::<N, Tok>::new();
    if op == 6 { let mut i = 0; while i < arg && i < N { other.push_back(Tok::fresh()); i += 1; } }
    let a2 = nd::usize_in(0, 2);
    unsafe { PANIC_AT_DROP = k; }
    let r = catch_unwind(AssertUnwindSafe(|| {
        match op {
            0 => b.truncate_back(arg),
            1 => b.truncate_front(arg),
            2 => b.clear(),
            3 => b.fill(Tok::fresh()),
            4 => b.fill_with(|| Tok::fresh()),
            5 => b.extend_from_slice(&src[..if arg < 6 { arg } else { 6 }]),
            6 => b.clone_from(&other),
            7 => { let len = b.len(); let s = if a2 < len { a2 } else { len }; let e = if arg > s { if arg < len { arg } else { len } } else { s };
                   let mut d = b.drain(s..e); if a2 == 1 { if let Some(t) = d.next_back() { core::mem::forget(t); } } drop(d); }
            8 => b.extend(TokIter::any(arg)),
            _ => { let len = b.len(); if len > 0 { let t = Tok::fresh(); b[0] = t; } }
        }
    }));
    disarm();
    no_double_drop();
    buffer_valid_after_panic(&mut b, "destructor panic");
    drop(b); drop(other); drop(src);
    no_double_drop();
}

/// C05: conversions and owners that are consumed by the operation
pub(crate) fn p_destructor_panic_owned<const N: usize, const M: usize>() {
    scenario_begin();
    let op = nd::usize_in(0, 2);
    let k = nd::usize_in(1, M + N + 1);
    if op == 0 {
        let arr: [Tok; M] = core::array::from_fn(|_| Tok::fresh());
        unsafe { PANIC_AT_DROP = k; }
        let r = catch_unwind(AssertUnwindSafe(|| { let b: CircularBuffer<N, Tok> = CircularBuffer::from(arr); b }));
        disarm();
        no_double_drop();
        if let Ok(mut b) = r { buffer_valid_after_panic(&mut b, "from array"); drop(b); }
    } else if op == 1 {
        let b = any_tokbuf::<N>();
        let steps = nd::usize_in(0, 1);
        unsafe { PANIC_AT_DROP = k; }
        let _ = catch_unwind(AssertUnwindSafe(|| { let mut it = b.into_iter(); if steps == 1 { if let Some(t) = it.next() { core::mem::forget(t); } } drop(it); }));
        disarm();
    } else {
        let b = any_tokbuf::<N>();
        unsafe { PANIC_AT_DROP = k; }
        let _ = catch_unwind(AssertUnwindSafe(|| { drop(b); }));
        disarm();
    }
    no_double_drop();
}

/// C06: the k-th user-code entry (clone / closure / iterator / eq) panics
pub(crate) fn p_callback_panic<const N: usize>() {
    scenario_begin();
    let mut b = any_tokbuf::<N>();
    let op = nd::usize_in(0, 10);
    let arg = nd::usize_in(0, N + 2);
    let k = nd::usize_in(1, N + 3);
    let src: [Tok; 6] = core::array::from_fn(|_| Tok::fresh());
    let mut other = CircularBuffer::<N, Tok>::new();
    { let mut i = 0; while i < arg && i < N { other.push_back(Tok::fresh()); i += 1; } }
    let mut made: Option<CircularBuffer<N, Tok>> = None;
    #[cfg(feature = "alloc")]
    let mut vec_out: Option<Vec<Tok>> = None;
    unsafe { PANIC_AT_CALLBACK = k; }
    let r = catch_unwind(AssertUnwindSafe(|| {
        match op {
            0 => b.extend_from_slice(&src[..if arg < 6 { arg } else { 6 }]),
            1 => b.fill(Tok::fresh()),
            2 => b.fill_spare(Tok::fresh()),
            3 => b.fill_with(|| { callback_entry(); Tok::fresh() }),
            4 => b.fill_spare_with(|| { callback_entry(); Tok::fresh() }),
            5 => b.extend(TokIter::any(arg)),
            6 => { made = Some(TokIter::any(arg).collect()); }
            7 => { made = Some(b.clone()); }
            8 => b.clone_from(&other),
            9 => { let _ = b == other; }
            _ => {
                #[cfg(feature = "alloc")]
                { vec_out = Some(b.to_vec()); }
            }
        }
    }));
    disarm();
    no_double_drop();
    buffer_valid_after_panic(&mut b, "user-code panic");
    if let Some(mut m) = made.take() { buffer_valid_after_panic(&mut m, "user-code panic (new buffer)"); drop(m); }
    #[cfg(feature = "alloc")]
    drop(vec_out);
    drop(b); drop(other); drop(src);
    no_double_drop();
    nothing_leaked();
}

/// C11 (bounded stand-in for the "leaves the buffer unchanged" clause, which needs the state AFTER a panic):
/// a call that panics for a documented reason must leave the buffer exactly as it was
pub(crate) fn p_documented_panic<const N: usize>() {
    scenario_begin();
    let mut b = any_tokbuf::<N>();
    let old = ids_of(&b);
    let (st, sz) = (b.start, b.size);
    let which = nd::usize_in(0, 5);
    let (lo, hi) = if which <= 2 { (any_bound(), any_bound()) } else { (Bound::Unbounded, Bound::Unbounded) };
    let i = if which >= 3 { nd::any_usize() } else { 0 };
    let j = if which == 5 { nd::any_usize() } else { 0 };
    let len = old.len;
    let must_panic = match which {
        0 | 1 | 2 => bounds_to_range(lo, hi, len).is_none(),
        3 | 4 => i >= len,
        _ => i >= len || j >= len,
    };
    let r = catch_unwind(AssertUnwindSafe(|| {
        match which {
            0 => { let it = b.range((lo, hi)); core::mem::forget(it); }
            1 => { let it = b.range_mut((lo, hi)); core::mem::forget(it); }
            2 => { let d = b.drain((lo, hi)); drop(d); }
            3 => { let _ = &b[i]; }
            4 => { let _ = &mut b[i]; }
            _ => b.swap(i, j),
        }
    }));
    if must_panic != r.is_err() { nd::record_failure("[C11] the call panicked although the documented condition does not hold, or returned although it does"); }
    if r.is_err() {
        if !(b.start == st && b.size == sz && ids_of(&b).eq(&old)) { nd::record_failure("[C11] a call that panicked for a documented reason changed the buffer"); }
    }
    drop(b);
    no_double_drop();
}

/// C19 (bounded stand-in for extreme capacities in the functions Verus cannot reach - drain, ranges, iterators:
/// CBMC cannot represent arrays of usize::MAX elements): zero-sized elements, capacity HUGE, front position at
/// 0, in the middle, and right below the capacity (where start + i exceeds the machine word); every operation
/// must complete without overflow / division / bounds panic (the native build has overflow checks on) and lengths,
/// return values and destructor counts must follow the sequence semantics.
pub(crate) fn p_zst_huge<const N: usize>() {
    scenario_begin();
    unsafe { ZDROPS = 0; }
    let mut b = CircularBuffer::<N, Z>::new();
    let pos = nd::usize_in(0, 4);
    b.start = match pos { 0 => 0, 1 => N - 1, 2 => N - 2, 3 => N / 2, _ => N - 3 };
    let size = nd::usize_in(0, 3);
    b.size = size;
    let op = nd::usize_in(0, 13);
    let arg = match nd::usize_in(0, 5) { 0 => 0, 1 => 1, 2 => 2, 3 => 3, 4 => usize::MAX - 1, _ => usize::MAX };
    let mut len = size; let mut dropped = 0usize;
    let r = catch_unwind(AssertUnwindSafe(|| {
        match op {
            0 => { let r = b.push_back(Z); if r.is_some() { nd::record_failure("[C19] huge ZST buffer: push_back displaced an element although not full"); } core::mem::forget(r); len += 1; }
            1 => { let r = b.push_front(Z); if r.is_some() { nd::record_failure("[C19] huge ZST buffer: push_front displaced an element although not full"); } core::mem::forget(r); len += 1; }
            2 => { let r = b.pop_back(); if r.is_some() != (size > 0) { nd::record_failure("[C19] huge ZST buffer: pop_back"); } if size > 0 { len -= 1; } core::mem::forget(r); }
            3 => { let r = b.pop_front(); if r.is_some() != (size > 0) { nd::record_failure("[C19] huge ZST buffer: pop_front"); } if size > 0 { len -= 1; } core::mem::forget(r); }
            4 => { let r = b.remove(arg); if r.is_some() != (arg < size) { nd::record_failure("[C19] huge ZST buffer: remove"); } if arg < size { len -= 1; } core::mem::forget(r); }
            5 => { b.truncate_back(arg); if arg < size { dropped = size - arg; len = arg; } }
            6 => { b.truncate_front(arg); if arg < size { dropped = size - arg; len = arg; } }
            7 => { let s = if arg < size { arg } else { size }; { let mut d = b.drain(s..); if let Some(z) = d.next_back() { core::mem::forget(z); dropped = size - s - 1; } } len = s; }
            8 => { let s = if arg < size { arg } else { size }; { let d = b.drain(..s); drop(d); } dropped = s; len = size - s; }
            9 => { let s = if arg < size { arg } else { size }; let n = b.range(s..).count() + b.range(..s).rev().count(); if n != size { nd::record_failure("[C19] huge ZST buffer: range() yields a wrong number of elements"); } }
            10 => { let n = b.iter().count(); let m = b.iter_mut().rev().count(); if n != size || m != size { nd::record_failure("[C19] huge ZST buffer: iter()/iter_mut() yield a wrong number of elements"); } }
            11 => { let g = b.get(arg).is_some(); let nb = b.nth_back(arg).is_some(); if g != (arg < size) || nb != (arg < size) { nd::record_failure("[C19] huge ZST buffer: get / nth_back"); }
                    let (x, y) = b.as_slices(); if x.len() + y.len() != size { nd::record_failure("[C19] huge ZST buffer: as_slices total length"); } }
            12 => { if size >= 2 { b.swap(0, size - 1); } let r = b.swap_remove_front(arg); if r.is_some() != (arg < size) { nd::record_failure("[C19] huge ZST buffer: swap_remove_front"); } if arg < size { len -= 1; } core::mem::forget(r); }
            _ => { let n = if arg < 4 { arg } else { 3 }; b.extend_from_slice(&[Z, Z, Z][..n]); len += n; /* the three literals are dropped at the end of this arm */ dropped += 3; }
        }
    }));
    if r.is_err() { nd::record_failure("[C11,C19] huge ZST buffer: the operation panicked (overflow, division by zero or bounds)"); }
    else {
        if !(b.start < N && b.size == len) || b.len() != len || b.is_empty() != (len == 0) || b.is_full() { nd::record_failure("[C19] huge ZST buffer: length / emptiness / fullness do not follow the sequence semantics"); }
        if zdrops() != dropped { nd::record_failure("[C19] huge ZST buffer: number of destructor runs differs from the number of elements removed and not returned"); }
    }
    // drop the few remaining elements
    let remaining = b.size;
    let before = zdrops();
    drop(b);
    if r.is_ok() && zdrops() - before != remaining { nd::record_failure("[C19] huge ZST buffer: dropping the buffer does not destroy exactly the remaining elements"); }
}


/// Debug output (C07, C13; bounded stand-in - core::fmt exhausts CBMC, so no Kani harness decides this):
/// for every layout of a capacity-N byte buffer and a list of formatter flags, the Debug output of the buffer,
/// of its iterators and of a drain equals that of the equivalent slice
pub(crate) fn p_debug<const N: usize>() {
    scenario_begin();
    let mut b = any_u8buf::<N>();
    let s = bytes_of(&b);
    let v: Vec<u8> = (0..s.len).map(|i| s.a[i]).collect();
    let sl: &[u8] = &v[..];
    macro_rules! same { ($fmt:literal, $what:literal) => {
        if format!($fmt, b) != format!($fmt, sl) { nd::record_failure(concat!("[C07,C13] Debug output of the buffer differs from that of the equivalent slice with format ", $fmt)); }
        if format!($fmt, b.iter()) != format!($fmt, sl) { nd::record_failure(concat!("[C07,C13] Debug output of iter() differs from that of the equivalent slice with format ", $fmt)); }
    } }
    same!("{:?}", ""); same!("{:#?}", ""); same!("{:5?}", ""); same!("{:<4?}", ""); same!("{:#x?}", ""); same!("{:02X?}", ""); same!("{:+?}", "");
    let k = nd::usize_in(0, N);
    let k = if k < s.len { k } else { s.len };
    if format!("{:?}", b.range(k..)) != format!("{:?}", &sl[k..]) { nd::record_failure("[C07,C13] Debug output of range(k..) differs from that of the equivalent sub-slice"); }
    if format!("{:?}", b.range_mut(..k)) != format!("{:?}", &sl[..k]) { nd::record_failure("[C07,C13] Debug output of range_mut(..k) differs from that of the equivalent sub-slice"); }
    if format!("{:?}", b.iter_mut()) != format!("{:?}", sl) { nd::record_failure("[C07,C13] Debug output of iter_mut() differs from that of the equivalent slice"); }
    { let mut it = b.iter(); let _ = it.next(); let _ = it.next_back();
      let lo = if s.len > 0 { 1 } else { 0 }; let hi = if s.len > 1 { s.len - 1 } else { lo };
      if format!("{:?}", it) != format!("{:?}", &sl[lo..hi]) { nd::record_failure("[C07,C13] Debug output of a partly consumed iterator differs from the remaining elements"); } }
    { let it = b.clone().into_iter(); if format!("{:?}", it) != format!("{:?}", sl) { nd::record_failure("[C07,C13] Debug output of into_iter() differs from that of the equivalent slice"); } }
    { let mut d = b.drain(k..); let _ = d.next_back();
      let hi = if s.len > k { s.len - 1 } else { k };
      if format!("{:?}", d) != format!("{:?}", &sl[k..hi]) { nd::record_failure("[C07,C13] Debug output of a drain differs from the elements it has not yet produced"); } }
}

/// C18 differential trace (bounded stand-in): a panic-free operation on every layout; the observable
/// events (results, contents, destructor and clone order, Debug output of iterators and drains) go to the trace,
/// which the driver compares between the default build and the nightly `--features unstable` build
pub(crate) fn t_ops<const N: usize>() {
    scenario_begin();
    let mut b = any_tokbuf::<N>();
    let op = nd::usize_in(0, 19);
    let arg = nd::usize_in(0, N + 1);
    let arg2 = nd::usize_in(0, 2);
    let src: [Tok; 6] = core::array::from_fn(|_| Tok::fresh());
    let r = catch_unwind(AssertUnwindSafe(|| {
        match op {
            0 => nd::trace(format!("r={:?}", b.push_back(Tok::fresh()))),
            1 => nd::trace(format!("r={:?}", b.push_front(Tok::fresh()))),
            2 => nd::trace(format!("r={:?}", b.try_push_back(Tok::fresh()))),
            3 => nd::trace(format!("r={:?}", b.try_push_front(Tok::fresh()))),
            4 => nd::trace(format!("r={:?} {:?}", b.pop_back(), b.pop_front())),
            5 => nd::trace(format!("r={:?}", b.remove(arg))),
            6 => nd::trace(format!("r={:?} {:?}", b.swap_remove_back(arg), b.swap_remove_front(arg2))),
            7 => { b.truncate_back(arg); }
            8 => { b.truncate_front(arg); }
            9 => { b.extend_from_slice(&src[..if arg + arg2 < 6 { arg + arg2 } else { 6 }]); }
            10 => { b.fill(Tok::fresh()); }
            11 => { b.fill_spare_with(|| Tok::fresh()); }
            12 => { let s = b.make_contiguous(); nd::trace(format!("mc={:?}", s)); }
            13 => { let (x, y) = b.as_slices(); nd::trace(format!("sl={:?}", x.iter().chain(y.iter()).collect::<Vec<_>>())); }
            14 => { let len = b.len(); let s = if arg2 < len { arg2 } else { len }; let e = if arg > s { if arg < len { arg } else { len } } else { s };
                    let mut d = b.drain(s..e); nd::trace(format!("dr={:?}", d)); let x = d.next(); let y = d.next_back(); nd::trace(format!("n={:?} nb={:?} rest={:?} len={}", x, y, d, d.len())); drop(d); }
            15 => { let len = b.len(); let s = if arg2 < len { arg2 } else { len };
                    let mut it = b.range(s..); let x = it.next_back(); nd::trace(format!("rg={:?} {:?} {}", x, it, it.len()));
                    let mut im = b.range_mut(..s); let y = im.next(); nd::trace(format!("rgm={:?} {:?} {}", y.map(|t| t.id), im, im.len())); }
            16 => { let c = b.clone(); nd::trace(format!("cl={:?} eq={}", c, c == b)); drop(c); }
            17 => { let arr: [Tok; 4] = core::array::from_fn(|_| Tok::fresh()); let c: CircularBuffer<N, Tok> = CircularBuffer::from(arr); nd::trace(format!("fa={:?}", c)); drop(c); }
            18 => { let c: CircularBuffer<N, Tok> = TokIter::any(arg + arg2).collect(); nd::trace(format!("fi={:?}", c)); let mut it = c.into_iter(); let x = it.next_back(); nd::trace(format!("ii={:?} {:?}", x, it)); drop(it); }
            _ => { b.extend(TokIter::any(arg)); nd::trace(format!("g={:?} nb={:?} i={:?}", b.get(arg2).map(|t| t.id), b.nth_back(arg2).map(|t| t.id), if arg2 < b.len() { Some(b[arg2].id) } else { None })); }
        }
    }));
    nd::trace(format!("panicked={} b={:?} len={} full={}", r.is_err(), b, b.len(), b.is_full()));
    drop(b); drop(src);
}
