use vstd::prelude::*;
use core::mem::MaybeUninit;
use core::mem;
use core::ptr;
use core::ops::Range;
verus! {

pub assume_specification [usize::overflowing_add] (a: usize, b: usize) -> (r: (usize, bool))
    ensures
        r.1 == (a + b > usize::MAX),
        r.0 as int == (if a + b > usize::MAX { a + b - usize::MAX - 1 } else { a + b }),
;

pub assume_specification<T> [core::mem::replace::<T>] (dest: &mut T, src: T) -> (r: T)
    ensures r == *old(dest), *final(dest) == src,
;

pub assume_specification<T> [<[T]>::rotate_left] (s: &mut [T], mid: usize)
    requires mid <= old(s)@.len()
    ensures final(s)@ == old(s)@.subrange(mid as int, old(s)@.len() as int) + old(s)@.subrange(0, mid as int)
;

fn min_usize(a: usize, b: usize) -> (r: usize)
    ensures r == (if a <= b { a } else { b }),
{ if a <= b { a } else { b } }

pub assume_specification<T> [MaybeUninit::<T>::write] (slot: &mut MaybeUninit<T>, val: T) -> (r: &mut T)
    ensures final(slot).mem_contents() == vstd::raw_ptr::MemContents::Init(val),
;

pub assume_specification<T> [MaybeUninit::<T>::assume_init_read] (slot: &MaybeUninit<T>) -> (r: T)
    requires slot.mem_contents().is_init(),
    ensures r == slot.mem_contents().value(),
;

spec fn phys(start: usize, i: int, n: usize) -> int { (start + i) % (n as int) }

spec fn lidx(start: usize, p: int, n: usize) -> int { if p >= start { p - start } else { p + n - start } }

proof fn lemma_add_mod(x: usize, y: usize, m: usize)
    requires m > 0, x <= m, y <= m,
    ensures
        x + y > usize::MAX ==> (usize::MAX % m) as int == usize::MAX - m,
        x + y > usize::MAX ==> ((x + y - m) % (m as int)) == (x + y) % (m as int),
{
    if x + y > usize::MAX {
        assert(2 * m > usize::MAX);
        vstd::arithmetic::div_mod::lemma_fundamental_div_mod_converse(usize::MAX as int, m as int, 1, usize::MAX - m);
        vstd::arithmetic::div_mod::lemma_mod_sub_multiples_vanish((x + y) as int, m as int);
    }
}

#[inline]
const fn add_mod(x: usize, y: usize, m: usize) -> (r: usize)
    requires m > 0, x <= m, y <= m,
    ensures r == (x + y) % (m as int), r == phys(x, y as int, m),
{
    proof { lemma_add_mod(x, y, m); }
    let (z, overflow) = x.overflowing_add(y);
    (z + (overflow as usize) * (usize::MAX % m + 1)) % m
}

proof fn lemma_phys(start: usize, n: usize)
    requires n > 0, start < n,
    ensures
        forall|i: int| 0 <= i < n ==> 0 <= #[trigger] phys(start, i, n) < n,
        forall|i: int, j: int| 0 <= i < n && 0 <= j < n && i != j ==> #[trigger] phys(start, i, n) != #[trigger] phys(start, j, n),
        phys(start, 0, n) == start,
        phys(start, 1, n) < n,
        forall|i: int| 0 <= i < n - 1 ==> #[trigger] phys(phys(start, 1, n) as usize, i, n) == phys(start, i + 1, n),
        phys(phys(start, 1, n) as usize, n - 1, n) == start,
{
    vstd::arithmetic::div_mod::lemma_small_mod(start as nat, n as nat);
    vstd::arithmetic::div_mod::lemma_mod_bound(start + 1, n as int);
    assert forall|i: int| 0 <= i < n implies #[trigger] phys(phys(start, 1, n) as usize, i, n) == phys(start, i + 1, n) by {
        vstd::arithmetic::div_mod::lemma_add_mod_noop(start + 1, i, n as int);
        vstd::arithmetic::div_mod::lemma_small_mod(i as nat, n as nat);
    }
    vstd::arithmetic::div_mod::lemma_mod_add_multiples_vanish(start as int, n as int);

    assert forall|i: int, j: int| 0 <= i < n && 0 <= j < n && i != j implies #[trigger] phys(start, i, n) != #[trigger] phys(start, j, n) by {
        let a = start + i; let b = start + j;
        if a < n { vstd::arithmetic::div_mod::lemma_small_mod(a as nat, n as nat); } else { vstd::arithmetic::div_mod::lemma_mod_sub_multiples_vanish(a, n as int); vstd::arithmetic::div_mod::lemma_small_mod((a - n) as nat, n as nat); }
        if b < n { vstd::arithmetic::div_mod::lemma_small_mod(b as nat, n as nat); } else { vstd::arithmetic::div_mod::lemma_mod_sub_multiples_vanish(b, n as int); vstd::arithmetic::div_mod::lemma_small_mod((b - n) as nat, n as nat); }
    }
}

#[verifier::external_body]
unsafe fn array_copy_within<T, const N: usize>(a: &mut [MaybeUninit<T>; N], src: usize, dst: usize, count: usize)
    requires src + count <= N, dst + count <= N
    ensures forall|k: int| 0 <= k < N ==> #[trigger] final(a)[k] == (if dst <= k < dst + count { old(a)[k - dst + src] } else { old(a)[k] })
{
    let p = a.as_mut_ptr();
    core::ptr::copy(p.add(src), p.add(dst), count);
}

#[verifier::external_body]
unsafe fn array_swap<T, const N: usize>(a: &mut [MaybeUninit<T>; N], i: usize, j: usize)
    requires i < N, j < N, i != j
    ensures forall|k: int| 0 <= k < N ==> #[trigger] final(a)[k] == (if k == i { old(a)[j as int] } else if k == j { old(a)[i as int] } else { old(a)[k] })
{
    core::ptr::swap_nonoverlapping(&mut a[i] as *mut _, &mut a[j] as *mut _, 1);
}

#[verifier::external_body]
unsafe fn slice_assume_init_mut<T>(slice: &mut [MaybeUninit<T>]) -> (r: &mut [T])
    requires forall|i: int| 0 <= i < old(slice)@.len() ==> (#[trigger] old(slice)@[i]).mem_contents().is_init()
    ensures r@.len() == old(slice)@.len(), forall|i: int| 0 <= i < old(slice)@.len() ==> #[trigger] r@[i] == old(slice)@[i].mem_contents().value(),
        final(slice)@.len() == old(slice)@.len(),
        forall|i: int| 0 <= i < old(slice)@.len() ==> (#[trigger] final(slice)@[i]).mem_contents() == vstd::raw_ptr::MemContents::Init(final(r)@[i]),
{
    &mut *(slice as *mut [MaybeUninit<T>] as *mut [T])
}

proof fn lemma_phys_closed(start: usize, n: usize)
    requires n > 0, start < n,
    ensures
        forall|i: int| 0 <= i <= n ==> #[trigger] phys(start, i, n) == (if start + i < n { start + i } else if start + i < 2 * n { start + i - n } else { 0 }),
{
    assert forall|i: int| 0 <= i <= n implies #[trigger] phys(start, i, n) == (if start + i < n { start + i } else if start + i < 2 * n { start + i - n } else { 0 }) by {
        let a = start + i;
        if a < n { vstd::arithmetic::div_mod::lemma_small_mod(a as nat, n as nat); }
        else { vstd::arithmetic::div_mod::lemma_mod_sub_multiples_vanish(a, n as int); vstd::arithmetic::div_mod::lemma_small_mod((a - n) as nat, n as nat); }
    }
}

#[verifier::external_body]
const unsafe fn slice_assume_init_ref<T>(slice: &[MaybeUninit<T>]) -> (r: &[T])
    requires forall|i: int| 0 <= i < slice@.len() ==> (#[trigger] slice@[i]).mem_contents().is_init()
    ensures r@.len() == slice@.len(), forall|i: int| 0 <= i < slice@.len() ==> #[trigger] r@[i] == slice@[i].mem_contents().value()
{
    &*(slice as *const [MaybeUninit<T>] as *const [T])
}

proof fn lemma_phys_closed_all(n: usize)
    requires n > 0,
    ensures
        forall|s: usize, i: int| s < n && 0 <= i <= n ==> #[trigger] phys(s, i, n) == (if s + i < n { s + i } else if s + i < 2 * n { s + i - n } else { 0 }),
{
    assert forall|s: usize, i: int| s < n && 0 <= i <= n implies #[trigger] phys(s, i, n) == (if s + i < n { s + i } else if s + i < 2 * n { s + i - n } else { 0 }) by {
        lemma_phys_closed(s, n);
    }
}

#[inline]
const fn sub_mod(x: usize, y: usize, m: usize) -> (r: usize)
    requires m > 0, x <= m, y <= m,
    ensures r == phys(x, m - y, m),
{
    debug_assert!(m > 0);
    debug_assert!(x <= m);
    debug_assert!(y <= m);
    add_mod(x, m - y, m)
}

#[verifier::external_body]
fn write_uninit_slice_cloned<T: Clone>(dst: &mut [MaybeUninit<T>], src: &[T])
    requires old(dst)@.len() == src@.len()
    ensures final(dst)@.len() == src@.len(),
        forall|i: int| 0 <= i < src@.len() ==> (#[trigger] final(dst)@[i]).mem_contents().is_init() && cloned(src@[i], final(dst)@[i].mem_contents().value()),
{ unimplemented!() }

struct CircularBuffer<const N: usize, T> {
    size: usize,
    start: usize,
    items: [MaybeUninit<T>; N],
}

impl<const N: usize, T> CircularBuffer<N, T> {
    spec fn phys(&self, i: int) -> int { phys(self.start, i, N) }

    spec fn wf(&self) -> bool {
        &&& self.size <= N
        &&& (N == 0 ==> self.start == 0)
        &&& (N > 0 ==> self.start < N)
        &&& forall|p: int| 0 <= p < N && lidx(self.start, p, N) < self.size ==> (#[trigger] self.items[p]).mem_contents().is_init()
    }


    proof fn lemma_wf(&self)
        requires self.wf()
        ensures
            forall|i: int| 0 <= i < self.size ==> (#[trigger] self.items[phys(self.start, i, N)]).mem_contents().is_init(),
            N > 0 ==> forall|s: usize, i: int| s < N && 0 <= i <= N ==> #[trigger] phys(s, i, N) == (if s + i < N { s + i } else if s + i < 2 * N { s + i - N } else { 0 }),
            N > 0 ==> forall|i: int| 0 <= i <= N ==> #[trigger] phys(self.start, i, N) == (if self.start + i < N { self.start + i } else if self.start + i < 2 * N { self.start + i - N } else { 0 }),
    {
        if N > 0 {
            lemma_phys_closed(self.start, N);
            lemma_phys_closed_all(N);
            assert forall|i: int| 0 <= i < self.size implies (#[trigger] self.items[phys(self.start, i, N)]).mem_contents().is_init() by {
                let p = phys(self.start, i, N);
                assert(lidx(self.start, p, N) == i);
            }
        }
    }

    spec fn view(&self) -> Seq<T> {
        Seq::new(self.size as nat, |i: int| self.items[self.phys(i)].mem_contents().value())
    }

    const fn len(&self) -> (r: usize)
        ensures r == self.size
    {
        self.size
    }

    #[inline]
    fn front_maybe_uninit_mut(&mut self) -> (r: &mut MaybeUninit<T>)
        requires old(self).start < N
        ensures *r == old(self).items[old(self).start as int],
            final(self).size == old(self).size, final(self).start == old(self).start,
            final(self).items@ == old(self).items@.update(old(self).start as int, *final(r)),
    {
        &mut self.items[self.start]
    }
    #[inline]
    const fn back_maybe_uninit(&self) -> (r: &MaybeUninit<T>)
        requires self.wf(), self.size > 0, N > 0
        ensures *r == self.items[self.phys(self.size - 1)]
    {
        let back = add_mod(self.start, self.size - 1, N);
        &self.items[back]
    }

    #[inline]
    fn dec_size(&mut self)
        requires old(self).size > 0
        ensures final(self).size == old(self).size - 1, final(self).start == old(self).start, final(self).items == old(self).items
    {
        self.size -= 1;
    }

    fn pop_back(&mut self) -> (r: Option<T>)
        requires old(self).wf()
        ensures final(self).wf(),
            old(self)@.len() == 0 ==> r.is_none() && final(self)@ == old(self)@,
            old(self)@.len() > 0 ==> r == Some(old(self)@.last()) && final(self)@ == old(self)@.drop_last(),
    {
        proof { self.lemma_wf(); }
        if N == 0 || self.size == 0 {
            // Nothing to do
            return None;
        }

        // SAFETY: if size is greater than 0, the back item is guaranteed to be initialized.
        let back = unsafe { self.back_maybe_uninit().assume_init_read() };
        self.dec_size();
        Some(back)
    }

    #[inline]
    fn back_maybe_uninit_mut(&mut self) -> (r: &mut MaybeUninit<T>)
        requires old(self).start < N, 0 < old(self).size <= N
        ensures
            *r == old(self).items[old(self).phys(old(self).size - 1)],
            final(self).size == old(self).size, final(self).start == old(self).start,
            final(self).items@ == old(self).items@.update(old(self).phys(old(self).size - 1), *final(r)),
    {
        debug_assert!(self.size > 0, "empty buffer");
        debug_assert!(self.size <= N, "size out-of-bounds");
        debug_assert!(self.start < N, "start out-of-bounds");
        let back = add_mod(self.start, self.size - 1, N);
        &mut self.items[back]
    }

    #[inline]
    fn inc_size(&mut self)
        requires old(self).size < N
        ensures final(self).size == old(self).size + 1, final(self).start == old(self).start, final(self).items == old(self).items
    {
        self.size += 1;
    }

    fn try_push_back(&mut self, item: T) -> (r: Result<(), T>)
        requires old(self).wf()
        ensures final(self).wf(),
            N > 0 && old(self)@.len() == N ==> r == Err::<(), T>(item) && final(self)@ == old(self)@,
            old(self)@.len() < N ==> r.is_ok() && final(self)@ =~= old(self)@.push(item),
    {
        proof { self.lemma_wf(); if N > 0 { lemma_phys(self.start, N); } }
        if N == 0 {
            // Nothing to do
            return Ok(());
        }
        if self.size >= N {
            // At capacity; return the pushed item as error
            Err(item)
        } else {
            // Some uninitialized slots left; append at the end
            self.inc_size();
            self.back_maybe_uninit_mut().write(item);
            Ok(())
        }
    }

    fn push_back(&mut self, item: T) -> (r: Option<T>)
        requires old(self).wf()
        ensures final(self).wf(),
            N == 0 ==> r == Some(item) && final(self)@ =~= old(self)@,
            N > 0 && old(self)@.len() == N ==> r == Some(old(self)@[0]) && final(self)@ =~= old(self)@.subrange(1, N as int).push(item),
            old(self)@.len() < N ==> r.is_none() && final(self)@ =~= old(self)@.push(item),
    {
        proof { self.lemma_wf(); if N > 0 { lemma_phys(self.start, N); } }
        if N == 0 {
            // Nothing to do
            return Some(item);
        }

        if self.size >= N {
            // At capacity; need to replace the front item
            //
            // SAFETY: if size is greater than 0, the front item is guaranteed to be initialized.
            let replaced_item = mem::replace(
                unsafe { self.front_maybe_uninit_mut().assume_init_mut() },
                item,
            );
            self.inc_start();
            Some(replaced_item)
        } else {
            // Some uninitialized slots left; append at the end
            self.inc_size();
            self.back_maybe_uninit_mut().write(item);
            None
        }
    }

    #[inline]
    fn inc_start(&mut self)
        requires old(self).start < N
        ensures final(self).start == phys(old(self).start, 1, N), final(self).size == old(self).size, final(self).items == old(self).items
    {
        debug_assert!(self.start < N, "start out-of-bounds");
        self.start = add_mod(self.start, 1, N);
    }

    fn fill_spare(&mut self, value: T)
    where
        T: Clone,
        requires old(self).wf()
        ensures final(self).wf(), final(self)@.len() == N,
            final(self)@.subrange(0, old(self)@.len() as int) =~= old(self)@,
    {
        if N == 0 || self.size == N {
            return;
        }
        // TODO Optimize
        while self.size < N - 1 
            invariant self.wf(), N > 0, self.size < N, self@.subrange(0, old(self)@.len() as int) =~= old(self)@, old(self)@.len() <= self@.len()
            decreases N - self.size
        {
            self.push_back(value.clone());
        }
        self.push_back(value);
    }

    fn remove(&mut self, index: usize) -> (r: Option<T>)
        requires old(self).wf()
        ensures final(self).wf(),
            index >= old(self)@.len() ==> r.is_none() && final(self)@ =~= old(self)@,
            index < old(self)@.len() ==> r == Some(old(self)@[index as int]) && final(self)@ =~= old(self)@.remove(index as int),
            final(self).start == old(self).start,
    {
        proof { self.lemma_wf(); if N > 0 { lemma_phys(self.start, N); } }
        if N == 0 || index >= self.size {
            return None;
        }

        let index = add_mod(self.start, index, N);
        let back_index = add_mod(self.start, self.size - 1, N);

        // SAFETY: `index` is in a valid range; the element is guaranteed to be initialized
        let item = unsafe { self.items[index].assume_init_read() };

        unsafe {
                        if back_index >= index {
                // Move the values at the right of `index` by 1 position to the left
                array_copy_within(&mut self.items, index + 1, index, back_index - index);
            } else {
                array_copy_within(&mut self.items, index + 1, index, N - index - 1);
                array_copy_within(&mut self.items, 0, N - 1, 1);
                array_copy_within(&mut self.items, 1, 0, back_index);
            }
        }

        self.dec_size();
        Some(item)
    }

    fn swap(&mut self, i: usize, j: usize) 
        requires old(self).wf(), i < old(self)@.len(), j < old(self)@.len()
        ensures final(self).wf(), final(self)@ =~= old(self)@.update(i as int, old(self)@[j as int]).update(j as int, old(self)@[i as int]),
            final(self).start == old(self).start, final(self).size == old(self).size,
    {
        proof { self.lemma_wf(); if N > 0 { lemma_phys(self.start, N); } }
        assert!(i < self.size, "i index out-of-bounds");
        assert!(j < self.size, "j index out-of-bounds");
        if i != j {
            let i = add_mod(self.start, i, N);
            let j = add_mod(self.start, j, N);
            // SAFETY: these are valid pointers
            unsafe { array_swap(&mut self.items, i, j) };
        }
    }

    fn fill_spare_with<F>(&mut self, mut f: F)
    where
        F: FnMut() -> T,
        requires old(self).wf(), forall|g: F| #[trigger] g.requires(())
    {
        if N == 0 {
            return;
        }
        // TODO Optimize
        while self.size < N 
            invariant self.wf()
            decreases N - self.size
        {
            self.push_back(f());
        }
    }

    #[verifier::external_body]
    unsafe fn drop_range(&mut self, range: Range<usize>)
        requires
            range.start >= range.end || (old(self).start < N && old(self).size <= N && range.start < old(self).size && range.end <= old(self).size && (range.start == 0 || range.end == old(self).size)),
            forall|i: int| range.start <= i < range.end ==> (#[trigger] old(self).items[phys(old(self).start, i, N)]).mem_contents().is_init(),
        ensures
            final(self).start == old(self).start, final(self).size == old(self).size,
            forall|p: int| 0 <= p < N && !(range.start <= lidx(old(self).start, p, N) < range.end) ==> #[trigger] final(self).items[p] == old(self).items[p],
    { unimplemented!() }

    fn truncate_back(&mut self, len: usize)
        requires old(self).wf()
        ensures final(self).wf(), final(self)@ =~= old(self)@.subrange(0, if len < old(self)@.len() { len as int } else { old(self)@.len() as int })
    {
        proof { self.lemma_wf(); if N > 0 { lemma_phys(self.start, N); } }
        if N == 0 || len >= self.size {
            // Nothing to do
            return;
        }

        let drop_range = len..self.size;
        unsafe { self.drop_range(drop_range) };
        self.size = len;
    }

    fn clear(&mut self)
        requires old(self).wf()
        ensures final(self).wf(), final(self)@.len() == 0
    {
        self.truncate_back(0)
    }

    fn swap_remove_back(&mut self, index: usize) -> (r: Option<T>)
        requires old(self).wf()
    {
        if index >= self.size {
            return None;
        }
        self.swap(index, self.size - 1);
        self.pop_back()
    }

    fn make_contiguous(&mut self) -> (r: &mut [T])
        requires old(self).wf()
        ensures r@ =~= old(self)@,
            final(self).size == old(self).size,
            /* frame[C20] */ old(self).start + old(self).size <= N ==> final(self).start == old(self).start && forall|p: int| 0 <= p < N && !(old(self).start <= p < old(self).start + old(self).size) ==> #[trigger] final(self).items[p] == old(self).items[p],
    {
        proof { self.lemma_wf(); if N > 0 { lemma_phys(self.start, N); } }
        if N == 0 || self.size == 0 {
            return &mut [];
        }

        debug_assert!(self.start < N, "start out-of-bounds");
        debug_assert!(self.size <= N, "size out-of-bounds");

        let start = self.start;
        let end = add_mod(self.start, self.size, N);

        let slice = if start < end {
            // Already contiguous; nothing to do
            &mut self.items[start..end]
        } else {
            // Not contiguous; need to rotate
            self.start = 0;
            self.items.rotate_left(start);
            &mut self.items[..self.size]
        };

        // SAFETY: The elements in the slice are guaranteed to be initialized
        unsafe { slice_assume_init_mut(slice) }
    }

    #[inline]
    fn as_slices(&self) -> (r: (&[T], &[T]))
        requires self.wf()
        ensures r.0@ + r.1@ =~= self@,
            self@.len() > 0 ==> r.0@.len() > 0,
    {
        proof { self.lemma_wf(); if N > 0 { lemma_phys(self.start, N); } }
        if N == 0 || self.size == 0 {
            return (&[], &[]);
        }

        debug_assert!(self.start < N, "start out-of-bounds");
        debug_assert!(self.size <= N, "size out-of-bounds");

        let start = self.start;
        let end = add_mod(self.start, self.size, N);

        let (front, back) = if start < end {
            (&self.items[start..end], &[][..])
        } else {
            let (back, front) = self.items.split_at(start);
            (front, &back[..end])
        };

        // SAFETY: The elements in these slices are guaranteed to be initialized
        unsafe { (slice_assume_init_ref(front), slice_assume_init_ref(back)) }
    }

    #[inline]
    fn dec_start(&mut self)
        requires old(self).start < N
        ensures final(self).start == phys(old(self).start, N - 1, N), final(self).size == old(self).size, final(self).items == old(self).items
    {
        debug_assert!(self.start < N, "start out-of-bounds");
        self.start = sub_mod(self.start, 1, N);
    }

    fn push_front(&mut self, item: T) -> (r: Option<T>)
        requires old(self).wf()
        ensures final(self).wf(),
            N == 0 ==> r == Some(item) && final(self)@ =~= old(self)@,
            N > 0 && old(self)@.len() == N ==> r == Some(old(self)@.last()) && final(self)@ =~= seq![item] + old(self)@.drop_last(),
            old(self)@.len() < N ==> r.is_none() && final(self)@ =~= seq![item] + old(self)@,
    {
        proof { self.lemma_wf(); if N > 0 { lemma_phys(self.start, N); } }
        if N == 0 {
            // Nothing to do
            return Some(item);
        }

        if self.size >= N {
            // At capacity; need to replace the back item
            //
            // SAFETY: if size is greater than 0, the back item is guaranteed to be initialized.
            let replaced_item = mem::replace(
                unsafe { self.back_maybe_uninit_mut().assume_init_mut() },
                item,
            );
            self.dec_start();
            Some(replaced_item)
        } else {
            // Some uninitialized slots left; insert at the start
            self.inc_size();
            self.dec_start();
            self.front_maybe_uninit_mut().write(item);
            None
        }
    }

    fn pop_front(&mut self) -> (r: Option<T>)
        requires old(self).wf()
        ensures final(self).wf(),
            old(self)@.len() == 0 ==> r.is_none() && final(self)@ =~= old(self)@,
            old(self)@.len() > 0 ==> r == Some(old(self)@[0]) && final(self)@ =~= old(self)@.subrange(1, old(self)@.len() as int),
    {
        proof { self.lemma_wf(); if N > 0 { lemma_phys(self.start, N); } }
        if N == 0 || self.size == 0 {
            // Nothing to do
            return None;
        }

        // SAFETY: if size is greater than 0, the front item is guaranteed to be initialized.
        let front = unsafe { self.front_maybe_uninit().assume_init_read() };
        self.dec_size();
        self.inc_start();
        Some(front)
    }

    #[inline]
    const fn front_maybe_uninit(&self) -> (r: &MaybeUninit<T>)
        requires self.size > 0, self.size <= N, self.start < N
        ensures *r == self.items[self.start as int]
    {
        debug_assert!(self.size > 0, "empty buffer");
        debug_assert!(self.size <= N, "size out-of-bounds");
        debug_assert!(self.start < N, "start out-of-bounds");
        &self.items[self.start]
    }

    fn truncate_front(&mut self, len: usize)
        requires old(self).wf()
        ensures final(self).wf(),
            final(self)@ =~= (if len < old(self)@.len() { old(self)@.subrange(old(self)@.len() - len, old(self)@.len() as int) } else { old(self)@ }),
    {
        proof { self.lemma_wf(); if N > 0 { lemma_phys(self.start, N); } }
        if N == 0 || len >= self.size {
            // Nothing to do
            return;
        }

        let drop_len = self.size - len;
        let drop_range = 0..drop_len;
        unsafe { self.drop_range(drop_range) };
        self.start = add_mod(self.start, drop_len, N);
        self.size = len;
    }

    fn extend_from_slice(&mut self, other: &[T])
        where T: Clone
        requires old(self).wf()
        ensures final(self).wf(),
            final(self)@.len() == (if old(self)@.len() + other@.len() < N { old(self)@.len() + other@.len() } else { N as nat }),
    {
        proof { self.lemma_wf(); if N > 0 { lemma_phys(self.start, N); } }
        if N == 0 {
            return;
        }

        debug_assert!(self.start < N, "start out-of-bounds");
        debug_assert!(self.size <= N, "size out-of-bounds");

        if other.len() < N {
            // All the elements of `other` fit into the buffer
            let free_size = N - self.size;
            let final_size = if other.len() < free_size {
                // All the elements of `other` fit at the back of the buffer
                self.size + other.len()
            } else {
                // Some of the elements of `other` need to overwrite the front of the buffer
                self.truncate_front(N - other.len());
                N
            };

            let (right, left) = self.slices_uninit_mut();

            let write_len = min_usize(right.len(), other.len());
            write_uninit_slice_cloned(&mut right[..write_len], &other[..write_len]);

            let other = &other[write_len..];
            debug_assert!(left.len() >= other.len());
            let write_len = other.len();
            write_uninit_slice_cloned(&mut left[..write_len], other);

            self.size = final_size;
        } else {
            // `other` overwrites the whole buffer; get only the last `N` elements from `other` and
            // overwrite
            self.clear();
            self.start = 0;

            let other = &other[other.len() - N..];
            debug_assert!(self.items.len() == other.len());
            write_uninit_slice_cloned(&mut self.items, other);

            self.size = N;
        }
    }

    #[inline]
    fn slices_uninit_mut(&mut self) -> (r: (&mut [MaybeUninit<T>], &mut [MaybeUninit<T>]))
        requires old(self).wf()
    {
        if N == 0 {
            return (&mut [][..], &mut [][..]);
        }

        debug_assert!(self.start < N, "start out-of-bounds");
        debug_assert!(self.size <= N, "size out-of-bounds");

        let start = self.start;
        let end = add_mod(start, self.size, N);
        if end < start {
            (&mut self.items[end..start], &mut [][..])
        } else {
            let (left, right) = self.items.split_at_mut(end);
            let left = &mut left[..start];
            (right, left)
        }
    }
}

} // verus!
fn main() {}
