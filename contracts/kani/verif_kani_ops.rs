// Harness-encoded contracts: symbolic pre-state under wf; call of the REAL function;
// postcondition over the whole abstract view + ledger + frame.

fn post_common<const N: usize>(b: &CircularBuffer<N, Tok>, what: &str) {
    check!(wf(b), "[C01,C03,C04] representation invariant broken after the operation");
}

// ----- single-element insertion (C01 C02 C03 C20) ------------------------------------------

pub(crate) fn c_push_back<const N: usize>() {
    let mut b = any_tokbuf::<N>();
    let old = ids_of(&b); let old_slots = slots_of(&b);
    let x = Tok::fresh(); let xid = x.id;
    let r = b.push_back(x);
    post_common(&b, "push_back");
    let new = ids_of(&b);
    let mut m = old; let mr = m.push_back_capped(xid, N);
    check!(opt_id(&r) == mr, "[C01,C02] push_back: returned element is not the displaced one");
    check!(new.eq(&m), "[C01,C02] push_back: contents differ from the capped-deque model");
    check!(b.len() == m.len && b.is_empty() == (m.len == 0) && b.is_full() == (m.len == N), "[C01] push_back: len/is_empty/is_full");
    check!(ledger_ok(&new, &held1(&r)), "[C03] push_back: element lost, duplicated or destroyed");
    check!(relocated(&old_slots, &slots_of(&b), next_id()) <= 2, "[C20] push_back relocates more than two surviving elements");
    nd::reached();
    core::mem::forget(r); core::mem::forget(b);
}

pub(crate) fn c_push_front<const N: usize>() {
    let mut b = any_tokbuf::<N>();
    let old = ids_of(&b); let old_slots = slots_of(&b);
    let x = Tok::fresh(); let xid = x.id;
    let r = b.push_front(x);
    post_common(&b, "push_front");
    let new = ids_of(&b);
    let mut m = old; let mr = m.push_front_capped(xid, N);
    check!(opt_id(&r) == mr, "[C01,C02] push_front: returned element is not the displaced one");
    check!(new.eq(&m), "[C01,C02] push_front: contents differ from the capped-deque model");
    check!(b.len() == m.len && b.is_empty() == (m.len == 0) && b.is_full() == (m.len == N), "[C01] push_front: len/is_empty/is_full");
    check!(ledger_ok(&new, &held1(&r)), "[C03] push_front: element lost, duplicated or destroyed");
    check!(relocated(&old_slots, &slots_of(&b), next_id()) <= 2, "[C20] push_front relocates more than two surviving elements");
    nd::reached();
    core::mem::forget(r); core::mem::forget(b);
}

pub(crate) fn c_try_push_back<const N: usize>() {
    let mut b = any_tokbuf::<N>();
    let old = ids_of(&b); let old_slots = slots_of(&b);
    let x = Tok::fresh(); let xid = x.id;
    let r = b.try_push_back(x);
    post_common(&b, "try_push_back");
    let new = ids_of(&b);
    let mut held = Seq::new();
    if old.len == N {
        // full (this includes capacity zero): Err with that very element, buffer unchanged
        match &r { Err(t) => { check!(t.id == xid, "[C01,C02] try_push_back: Err carries a different element"); held.push(t.id); }
                   Ok(()) => check!(false, "[C01,C02] try_push_back: returned Ok on a full buffer (element silently lost)") }
        check!(new.eq(&old), "[C01,C02] try_push_back: full buffer changed");
    } else {
        check!(r.is_ok(), "[C01,C02] try_push_back: returned Err although the buffer was not full");
        let mut m = old; m.push(xid);
        check!(new.eq(&m), "[C01,C02] try_push_back: element not appended at the back");
    }
    check!(ledger_ok(&new, &held), "[C03] try_push_back: element lost, duplicated or destroyed");
    check!(relocated(&old_slots, &slots_of(&b), next_id()) <= 2, "[C20] try_push_back relocates more than two surviving elements");
    nd::reached();
    core::mem::forget(r); core::mem::forget(b);
}

pub(crate) fn c_try_push_front<const N: usize>() {
    let mut b = any_tokbuf::<N>();
    let old = ids_of(&b); let old_slots = slots_of(&b);
    let x = Tok::fresh(); let xid = x.id;
    let r = b.try_push_front(x);
    post_common(&b, "try_push_front");
    let new = ids_of(&b);
    let mut held = Seq::new();
    if old.len == N {
        match &r { Err(t) => { check!(t.id == xid, "[C01,C02] try_push_front: Err carries a different element"); held.push(t.id); }
                   Ok(()) => check!(false, "[C01,C02] try_push_front: returned Ok on a full buffer (element silently lost)") }
        check!(new.eq(&old), "[C01,C02] try_push_front: full buffer changed");
    } else {
        check!(r.is_ok(), "[C01,C02] try_push_front: returned Err although the buffer was not full");
        let mut m = old; m.push_front(xid);
        check!(new.eq(&m), "[C01,C02] try_push_front: element not inserted at the front");
    }
    check!(ledger_ok(&new, &held), "[C03] try_push_front: element lost, duplicated or destroyed");
    check!(relocated(&old_slots, &slots_of(&b), next_id()) <= 2, "[C20] try_push_front relocates more than two surviving elements");
    nd::reached();
    core::mem::forget(r); core::mem::forget(b);
}

// ----- removal (C01 C03 C20) ----------------------------------------------------------------

pub(crate) fn c_pop_back<const N: usize>() {
    let mut b = any_tokbuf::<N>();
    let old = ids_of(&b); let old_slots = slots_of(&b);
    let r = b.pop_back();
    post_common(&b, "pop_back");
    let new = ids_of(&b);
    let mut m = old; let mr = m.pop_back();
    check!(opt_id(&r) == mr, "[C01] pop_back: wrong element returned");
    check!(new.eq(&m), "[C01] pop_back: contents differ from the model");
    check!(ledger_ok(&new, &held1(&r)), "[C03] pop_back: element lost, duplicated or destroyed");
    check!(relocated(&old_slots, &slots_of(&b), next_id()) <= 2, "[C20] pop_back relocates more than two surviving elements");
    nd::reached();
    core::mem::forget(r); core::mem::forget(b);
}

pub(crate) fn c_pop_front<const N: usize>() {
    let mut b = any_tokbuf::<N>();
    let old = ids_of(&b); let old_slots = slots_of(&b);
    let r = b.pop_front();
    post_common(&b, "pop_front");
    let new = ids_of(&b);
    let mut m = old; let mr = m.pop_front();
    check!(opt_id(&r) == mr, "[C01] pop_front: wrong element returned");
    check!(new.eq(&m), "[C01] pop_front: contents differ from the model");
    check!(ledger_ok(&new, &held1(&r)), "[C03] pop_front: element lost, duplicated or destroyed");
    check!(relocated(&old_slots, &slots_of(&b), next_id()) <= 2, "[C20] pop_front relocates more than two surviving elements");
    nd::reached();
    core::mem::forget(r); core::mem::forget(b);
}

pub(crate) fn c_remove<const N: usize>() {
    let mut b = any_tokbuf::<N>();
    let old = ids_of(&b); let old_slots = slots_of(&b);
    let i = nd::any_usize();
    let r = b.remove(i);
    post_common(&b, "remove");
    let new = ids_of(&b);
    let mut m = old; let mr = m.remove(i);
    check!(opt_id(&r) == mr, "[C01] remove: wrong element returned (or Some/None wrong)");
    check!(new.eq(&m), "[C01] remove: contents differ from the model");
    check!(ledger_ok(&new, &held1(&r)), "[C03] remove: element lost, duplicated or destroyed");
    let budget = if i < old.len { old.len - i } else { 0 };
    check!(relocated(&old_slots, &slots_of(&b), next_id()) <= budget, "[C20] remove(i) relocates more than len-i surviving elements");
    nd::reached();
    core::mem::forget(r); core::mem::forget(b);
}

pub(crate) fn c_swap<const N: usize>() {
    let mut b = any_tokbuf::<N>();
    let old = ids_of(&b); let old_slots = slots_of(&b);
    let i = nd::any_usize(); let j = nd::any_usize();
    nd::assume(i < old.len && j < old.len);
    b.swap(i, j);
    post_common(&b, "swap");
    let new = ids_of(&b);
    let mut m = old; m.swap(i, j);
    check!(new.eq(&m), "[C01] swap: contents differ from the model");
    check!(ledger_ok(&new, &Seq::new()), "[C03] swap: element lost, duplicated or destroyed");
    check!(relocated(&old_slots, &slots_of(&b), next_id()) <= 2, "[C20] swap relocates more than two surviving elements");
    nd::reached();
    core::mem::forget(b);
}

pub(crate) fn c_swap_remove_back<const N: usize>() {
    let mut b = any_tokbuf::<N>();
    let old = ids_of(&b); let old_slots = slots_of(&b);
    let i = nd::any_usize();
    let r = b.swap_remove_back(i);
    post_common(&b, "swap_remove_back");
    let new = ids_of(&b);
    let mut m = old;
    let mr = if i < m.len { let l = m.len - 1; m.swap(i, l); m.pop_back() } else { None };
    check!(opt_id(&r) == mr, "[C01] swap_remove_back: wrong element returned");
    check!(new.eq(&m), "[C01] swap_remove_back: contents differ from the model");
    check!(ledger_ok(&new, &held1(&r)), "[C03] swap_remove_back: element lost, duplicated or destroyed");
    check!(relocated(&old_slots, &slots_of(&b), next_id()) <= 2, "[C20] swap_remove_back relocates more than two surviving elements");
    nd::reached();
    core::mem::forget(r); core::mem::forget(b);
}

pub(crate) fn c_swap_remove_front<const N: usize>() {
    let mut b = any_tokbuf::<N>();
    let old = ids_of(&b); let old_slots = slots_of(&b);
    let i = nd::any_usize();
    let r = b.swap_remove_front(i);
    post_common(&b, "swap_remove_front");
    let new = ids_of(&b);
    let mut m = old;
    let mr = if i < m.len { m.swap(i, 0); m.pop_front() } else { None };
    check!(opt_id(&r) == mr, "[C01] swap_remove_front: wrong element returned");
    check!(new.eq(&m), "[C01] swap_remove_front: contents differ from the model");
    check!(ledger_ok(&new, &held1(&r)), "[C03] swap_remove_front: element lost, duplicated or destroyed");
    check!(relocated(&old_slots, &slots_of(&b), next_id()) <= 2, "[C20] swap_remove_front relocates more than two surviving elements");
    nd::reached();
    core::mem::forget(r); core::mem::forget(b);
}

// ----- truncation (C01 C03 C05 C20) ---------------------------------------------------------

pub(crate) fn c_truncate_back<const N: usize>() {
    let mut b = any_tokbuf::<N>();
    watch(&b);
    let old = ids_of(&b); let old_slots = slots_of(&b);
    let len = nd::any_usize();
    b.truncate_back(len);
    unwatch();
    post_common(&b, "truncate_back");
    let new = ids_of(&b);
    let mut m = old; m.keep_first(len);
    check!(new.eq(&m), "[C01] truncate_back: contents differ from the model");
    check!(ledger_ok(&new, &Seq::new()), "[C03] truncate_back: element lost, duplicated, leaked or destroyed while reachable");
    check!(relocated(&old_slots, &slots_of(&b), next_id()) <= 2, "[C20] truncate_back relocates more than two surviving elements");
    nd::reached();
    core::mem::forget(b);
}

pub(crate) fn c_truncate_front<const N: usize>() {
    let mut b = any_tokbuf::<N>();
    watch(&b);
    let old = ids_of(&b); let old_slots = slots_of(&b);
    let len = nd::any_usize();
    b.truncate_front(len);
    unwatch();
    post_common(&b, "truncate_front");
    let new = ids_of(&b);
    let mut m = old; m.keep_last(len);
    check!(new.eq(&m), "[C01] truncate_front: contents differ from the model");
    check!(ledger_ok(&new, &Seq::new()), "[C03] truncate_front: element lost, duplicated, leaked or destroyed while reachable");
    check!(relocated(&old_slots, &slots_of(&b), next_id()) <= 2, "[C20] truncate_front relocates more than two surviving elements");
    nd::reached();
    core::mem::forget(b);
}

pub(crate) fn c_clear<const N: usize>() {
    let mut b = any_tokbuf::<N>();
    watch(&b);
    b.clear();
    unwatch();
    post_common(&b, "clear");
    let new = ids_of(&b);
    check!(new.len == 0 && b.is_empty(), "[C01] clear: buffer not empty");
    check!(ledger_ok(&new, &Seq::new()), "[C03] clear: element leaked or destroyed twice");
    nd::reached();
    core::mem::forget(b);
}

pub(crate) fn c_drop_buffer<const N: usize>() {
    let mut b = any_tokbuf::<N>();
    watch(&b);
    unsafe { core::ptr::drop_in_place(&mut b); }   // Drop::drop in place (a move would change the watched address)
    core::mem::forget(b);
    unwatch();
    check!(ledger_ok(&Seq::new(), &Seq::new()), "[C03] dropping the buffer: element leaked or destroyed twice");
    nd::reached();
}

// ----- make_contiguous and views (C01 C07 C20) ---------------------------------------------

/// does `p` address one of the OCCUPIED slots of the buffer? (C04: nothing may be read from / handed out of any other slot)
fn in_window<const N: usize>(b: &CircularBuffer<N, Tok>, p: *const Tok) -> bool {
    let mut i = 0; let mut found = false;
    while i < b.size && i < N { if core::ptr::eq(b.items[phys(b.start, i, N)].as_ptr(), p) { found = true; } i += 1; }
    found
}

fn slot_ptr<const N: usize>(b: &CircularBuffer<N, Tok>, i: usize) -> *const Tok {
    b.items[phys(b.start, i, N)].as_ptr()
}

pub(crate) fn c_make_contiguous<const N: usize>() {
    let mut b = any_tokbuf::<N>();
    let old = ids_of(&b); let old_slots = slots_of(&b);
    let was_contiguous = N == 0 || b.start + b.size <= N;
    let (ptr0, rlen, first_ok) = {
        let s = b.make_contiguous();
        let mut ok = s.len() == old.len;
        let mut i = 0; while i < s.len() && i < old.len { if s[i].id != old.a[i] { ok = false; } i += 1; }
        (s.as_ptr(), s.len(), ok)
    };
    post_common(&b, "make_contiguous");
    check!(first_ok, "[C01,C07] make_contiguous: returned slice is not the whole contents in order");
    let new = ids_of(&b);
    check!(new.eq(&old), "[C01] make_contiguous: logical contents changed");
    if old.len > 0 { check!(ptr0 == slot_ptr(&b, 0), "[C07] make_contiguous: returned slice does not alias the buffer's elements"); }
    check!(N == 0 || b.start + b.size <= N, "[C07] make_contiguous: contents not contiguous afterwards");
    { let (x, y) = b.as_slices(); check!(y.len() == 0 && x.len() == old.len, "[C07] make_contiguous: as_slices still reports two slices"); }
    check!(ledger_ok(&new, &Seq::new()), "[C03] make_contiguous: element lost, duplicated or destroyed");
    if was_contiguous { check!(relocated(&old_slots, &slots_of(&b), next_id()) == 0, "[C20] make_contiguous relocated elements although the contents were already contiguous"); }
    nd::reached();
    core::mem::forget(b);
}

pub(crate) fn c_get<const N: usize>() {
    let b = any_tokbuf::<N>();
    let old = ids_of(&b);
    let i = nd::any_usize();
    // get / nth_front
    match b.get(i) { Some(t) => { check!(in_window(&b, t as *const Tok), "[C04] get(i) handed out a reference to a slot that holds no live element");
                                  check!(i < old.len && t.id == old.a[i % CAP] && (t as *const Tok) == slot_ptr(&b, i % (N + 1)), "[C07] get(i): wrong element or address") }
                     None => check!(i >= old.len, "[C07,C11] get(i) returned None for a position inside the contents") }
    match b.nth_front(i) { Some(t) => check!(i < old.len && (t as *const Tok) == slot_ptr(&b, i), "[C07] nth_front(i): wrong element or address"),
                           None => check!(i >= old.len, "[C07] nth_front(i) returned None for a position inside the contents") }
    match b.nth_back(i) { Some(t) => check!(i < old.len && (t as *const Tok) == slot_ptr(&b, old.len - 1 - i), "[C07] nth_back(i): wrong element or address"),
                          None => check!(i >= old.len, "[C07] nth_back(i) returned None for a position inside the contents") }
    match b.front() { Some(t) => check!(old.len > 0 && (t as *const Tok) == slot_ptr(&b, 0), "[C07] front(): wrong element or address"),
                      None => check!(old.len == 0, "[C07] front() returned None on a non-empty buffer") }
    match b.back() { Some(t) => check!(old.len > 0 && (t as *const Tok) == slot_ptr(&b, old.len - 1), "[C07] back(): wrong element or address"),
                     None => check!(old.len == 0, "[C07] back() returned None on a non-empty buffer") }
    if i < old.len { let t = &b[i]; check!((t as *const Tok) == slot_ptr(&b, i), "[C07] index(i): wrong element or address"); }
    check!(b.len() == old.len && b.capacity() == N, "[C01,C07] len()/capacity() disagree with the contents");
    check!(ids_of(&b).eq(&old), "[C07] read accessor changed the buffer");
    nd::reached();
    core::mem::forget(b);
}

pub(crate) fn c_get_mut<const N: usize>() {
    let mut b = any_tokbuf::<N>();
    let old = ids_of(&b);
    let (st, sz) = (b.start, b.size);
    let i = nd::any_usize();
    let which = nd::usize_in(0, 5);
    let (got, want_idx): (Option<*mut Tok>, Option<usize>) = match which {
        0 => (b.get_mut(i).map(|t| t as *mut Tok), if i < old.len { Some(i) } else { None }),
        1 => (b.nth_front_mut(i).map(|t| t as *mut Tok), if i < old.len { Some(i) } else { None }),
        2 => (b.nth_back_mut(i).map(|t| t as *mut Tok), if i < old.len { Some(old.len - 1 - i) } else { None }),
        3 => (b.front_mut().map(|t| t as *mut Tok), if old.len > 0 { Some(0) } else { None }),
        4 => (b.back_mut().map(|t| t as *mut Tok), if old.len > 0 { Some(old.len - 1) } else { None }),
        _ => { if i < old.len { (Some(&mut b[i] as *mut Tok), Some(i)) } else { (None, None) } }
    };
    match (got, want_idx) {
        (Some(p), Some(k)) => check!(p as *const Tok == slot_ptr(&b, k), "[C07] mutable accessor does not address exactly the requested element"),
        (None, None) => {},
        _ => check!(false, "[C07] mutable accessor: Some/None does not match the contents"),
    }
    check!(b.start == st && b.size == sz && ids_of(&b).eq(&old), "[C01,C07] mutable accessor changed the buffer by itself");
    // a write through the reference changes exactly that position
    if let (Some(p), Some(k)) = (got, want_idx) {
        unsafe { (*p).id = 63; }
        let new = ids_of(&b);
        let mut m = old; m.a[k] = 63;
        check!(new.eq(&m), "[C01,C07] write through a mutable accessor changed a different position");
    }
    nd::reached();
    core::mem::forget(b);
}

pub(crate) fn c_as_slices<const N: usize>() {
    let mut b = any_tokbuf::<N>();
    let old = ids_of(&b);
    {
        let (x, y) = b.as_slices();
        check!(x.len() + y.len() == old.len, "[C07] as_slices: total length differs from len()");
        let mut i = 0;
        while i < old.len {
            let t = if i < x.len() { &x[i] } else { &y[i - x.len()] };
            check!(t.id == old.a[i] && (t as *const Tok) == slot_ptr(&b, i), "[C07] as_slices: concatenation is not the contents in order");
            i += 1;
        }
    }
    {
        let (x, y) = b.as_mut_slices();
        let (xl, yl) = (x.len(), y.len());
        let (xp, yp) = (x.as_ptr(), y.as_ptr());
        check!(xl + yl == old.len, "[C07] as_mut_slices: total length differs from len()");
        let mut i = 0;
        while i < old.len {
            let p = if i < xl { unsafe { xp.add(i) } } else { unsafe { yp.add(i - xl) } };
            check!(p == slot_ptr(&b, i), "[C07] as_mut_slices: does not alias exactly the elements in order");
            i += 1;
        }
    }
    check!(ids_of(&b).eq(&old), "[C07] slice views changed the buffer");
    nd::reached();
    core::mem::forget(b);
}

pub(crate) fn c_iter_views<const N: usize>() {
    let mut b = any_tokbuf::<N>();
    let old = ids_of(&b);
    {
        let mut it = b.iter();
        check!(it.len() == old.len, "[C07,C08] iter().len() differs from len()");
        let mut i = 0;
        while i < old.len {
            match it.next() { Some(t) => check!(t.id == old.a[i] && (t as *const Tok) == slot_ptr(&b, i), "[C07,C08] iter(): wrong element at this position"),
                              None => check!(false, "[C07,C08] iter() ended early") }
            i += 1;
        }
        check!(it.next().is_none() && it.next_back().is_none(), "[C07,C08] iter() yields more than the contents");
    }
    {
        let mut ptrs = [core::ptr::null::<Tok>(); CAP];
        let mut k = 0;
        {
            let mut it = b.iter_mut();
            check!(it.len() == old.len, "[C07,C08] iter_mut().len() differs from len()");
            while let Some(t) = it.next() { check!(k < old.len, "[C07,C08] iter_mut() yields more than the contents"); ptrs[k] = t as *mut Tok as *const Tok; k += 1; }
        }
        check!(k == old.len, "[C07,C08] iter_mut() ended early");
        let mut i = 0; while i < old.len { check!(ptrs[i] == slot_ptr(&b, i), "[C07,C08] iter_mut(): does not address the elements in order, pairwise distinct"); i += 1; }
    }
    {
        let mut it = (&b).into_iter();
        let mut i = 0; while i < old.len { check!(it.next().map(|t| t.id) == Some(old.a[i]), "[C07,C08] (&buf).into_iter(): wrong element"); i += 1; }
        check!(it.next().is_none(), "[C07,C08] (&buf).into_iter() yields more than the contents");
    }
    check!(ids_of(&b).eq(&old), "[C07] iterators changed the buffer");
    nd::reached();
    core::mem::forget(b);
}

// ----- fill family (C01 C03 C05 C06) --------------------------------------------------------

fn is_value_or_clone(id: u8, vid: u8) -> bool { id == vid || ((id as usize) < MAXID && parent(id as usize) == vid) }

pub(crate) fn c_fill_spare<const N: usize>() {
    let mut b = any_tokbuf::<N>();
    watch(&b);
    let old = ids_of(&b);
    let v = Tok::fresh(); let vid = v.id;
    b.fill_spare(v);
    unwatch();
    post_common(&b, "fill_spare");
    let new = ids_of(&b);
    check!(new.len == N && b.is_full(), "[C01] fill_spare: buffer not full afterwards");
    let mut i = 0;
    while i < new.len {
        if i < old.len { check!(new.a[i] == old.a[i], "[C01] fill_spare: existing element changed"); }
        else { check!(is_value_or_clone(new.a[i], vid), "[C01] fill_spare: free slot not filled with the value or a clone of it"); }
        i += 1;
    }
    check!(ledger_ok(&new, &Seq::new()), "[C03] fill_spare: element lost, duplicated, leaked or destroyed twice");
    nd::reached();
    core::mem::forget(b);
}

pub(crate) fn c_fill<const N: usize>() {
    let mut b = any_tokbuf::<N>();
    watch(&b);
    let old = ids_of(&b);
    let v = Tok::fresh(); let vid = v.id;
    b.fill(v);
    unwatch();
    post_common(&b, "fill");
    let new = ids_of(&b);
    check!(new.len == N && b.is_full(), "[C01] fill: buffer not full afterwards");
    let mut i = 0; while i < new.len { check!(is_value_or_clone(new.a[i], vid), "[C01] fill: position does not hold the value or a clone of it"); i += 1; }
    check!(ledger_ok(&new, &Seq::new()), "[C03] fill: old element leaked / element destroyed twice");
    nd::reached();
    core::mem::forget(b);
}

pub(crate) fn c_fill_with<const N: usize>() {
    let mut b = any_tokbuf::<N>();
    watch(&b);
    let old = ids_of(&b);
    let first = next_id();
    let spare_only = nd::any_bool();
    if spare_only { b.fill_spare_with(|| { callback_entry(); Tok::fresh() }); } else { b.fill_with(|| { callback_entry(); Tok::fresh() }); }
    unwatch();
    post_common(&b, "fill_with");
    let new = ids_of(&b);
    check!(new.len == N && b.is_full(), "[C01] fill_with/fill_spare_with: buffer not full afterwards");
    let keep = if spare_only { old.len } else { 0 };
    let mut i = 0;
    while i < new.len {
        if i < keep { check!(new.a[i] == old.a[i], "[C01] fill_spare_with: existing element changed"); }
        else { check!(new.a[i] as usize == first + (i - keep), "[C01] fill_with/fill_spare_with: generated elements not stored in call order"); }
        i += 1;
    }
    check!(next_id() == first + (N - keep), "[C01] fill_with/fill_spare_with: closure called a wrong number of times");
    check!(ledger_ok(&new, &Seq::new()), "[C03] fill_with/fill_spare_with: element lost, duplicated, leaked or destroyed twice");
    nd::reached();
    core::mem::forget(b);
}

// ----- bulk insertion and conversions (C01 C03 C06 C12) -------------------------------------

/// iterator of fresh tokens with an arbitrary (but valid) size_hint: lower <= remaining <= upper
pub(crate) struct TokIter { pub left: usize, pub slack_lo: usize, pub slack_hi: Option<usize> }
impl TokIter {
    pub fn any(n: usize) -> TokIter {
        let slack_lo = nd::usize_in(0, 1);
        let slack_hi = if nd::any_bool() { Some(nd::usize_in(0, 2)) } else { None };
        TokIter { left: n, slack_lo, slack_hi }
    }
}
impl Iterator for TokIter {
    type Item = Tok;
    fn next(&mut self) -> Option<Tok> { callback_entry(); if self.left == 0 { None } else { self.left -= 1; Some(Tok::fresh()) } }
    fn size_hint(&self) -> (usize, Option<usize>) {
        let lo = if self.left >= self.slack_lo { self.left - self.slack_lo } else { 0 };
        (lo, self.slack_hi.map(|s| self.left + s))
    }
}

pub(crate) fn c_extend<const N: usize>() {
    let mut b = any_tokbuf::<N>();
    watch(&b);
    let old = ids_of(&b);
    let n = nd::usize_in(0, N + 2);
    let first = next_id();
    b.extend(TokIter::any(n));
    unwatch();
    post_common(&b, "extend");
    let new = ids_of(&b);
    let mut m = old; let mut k = 0; while k < n { m.push((first + k) as u8); k += 1; }
    m.keep_last(N);
    check!(new.eq(&m), "[C01,C12] extend: contents are not the last N of (old contents ++ items)");
    check!(ledger_ok(&new, &Seq::new()), "[C03,C12] extend: evicted element not destroyed exactly once / element lost");
    nd::reached();
    core::mem::forget(b);
}

pub(crate) fn c_from_iter<const N: usize>() {
    let n = nd::usize_in(0, N + 2);
    let first = next_id();
    let b: CircularBuffer<N, Tok> = TokIter::any(n).collect();
    post_common(&b, "from_iter");
    let new = ids_of(&b);
    let mut m = Seq::new(); let mut k = 0; while k < n { m.push((first + k) as u8); k += 1; }
    m.keep_last(N);
    check!(new.eq(&m), "[C12] from_iter: contents are not the last N items in order");
    check!(ledger_ok(&new, &Seq::new()), "[C03,C12] from_iter: discarded item not destroyed exactly once / element lost");
    nd::reached();
    core::mem::forget(b);
}

pub(crate) fn c_extend_from_slice<const N: usize, const L: usize>() {
    let mut b = any_tokbuf::<N>();
    watch(&b);
    let old = ids_of(&b);
    let src: [Tok; L] = core::array::from_fn(|_| Tok::fresh());
    let first_src = if L > 0 { src[0].id as usize } else { 0 };
    let n = nd::usize_in(0, L);
    b.extend_from_slice(&src[..n]);
    unwatch();
    post_common(&b, "extend_from_slice");
    let new = ids_of(&b);
    let total = old.len + n;
    let keep = if total < N { total } else { N };
    check!(new.len == keep, "[C01] extend_from_slice: wrong length");
    let skip = total - keep;
    let mut i = 0;
    while i < keep && i < new.len {
        let j = skip + i;
        let id = new.a[i] as usize;
        if j < old.len { check!(id == old.a[j] as usize, "[C01] extend_from_slice: surviving old element missing or out of order"); }
        else { check!(id < MAXID && id >= first_src + L && parent(id) as usize == first_src + (j - old.len), "[C01] extend_from_slice: position does not hold a fresh clone of the right slice element"); }
        i += 1;
    }
    let mut held = Seq::new(); let mut k = 0; while k < L { held.push(src[k].id); k += 1; }
    check!(ledger_ok(&new, &held), "[C03] extend_from_slice: evicted element not destroyed exactly once / clone leaked or duplicated");
    nd::reached();
    core::mem::forget(b); core::mem::forget(src);
}

pub(crate) fn c_from_array<const N: usize, const M: usize>() {
    let arr: [Tok; M] = core::array::from_fn(|_| Tok::fresh());
    let b: CircularBuffer<N, Tok> = CircularBuffer::from(arr);
    post_common(&b, "from(array)");
    let new = ids_of(&b);
    let keep = if M < N { M } else { N };
    check!(new.len == keep, "[C12] From<[T; M]>: wrong length");
    let mut i = 0; while i < keep && i < new.len { check!(new.a[i] as usize == M - keep + i, "[C12] From<[T; M]>: contents are not the last N array elements in order"); i += 1; }
    check!(ledger_ok(&new, &Seq::new()), "[C03,C12] From<[T; M]>: discarded prefix not destroyed exactly once / element duplicated");
    nd::reached();
    core::mem::forget(b);
}

pub(crate) fn c_new<const N: usize>() {
    let b = CircularBuffer::<N, Tok>::new();
    check!(wf(&b) && b.len() == 0 && b.is_empty() && b.capacity() == N, "[C12] new(): not an empty buffer of capacity N");
    let d: CircularBuffer<N, Tok> = Default::default();
    check!(wf(&d) && d.len() == 0 && d.is_empty(), "[C12] default(): not an empty buffer");
    nd::reached();
}

#[cfg(feature = "alloc")]
pub(crate) fn c_boxed<const N: usize>() {
    let b = CircularBuffer::<N, Tok>::boxed();
    check!(wf(&*b) && b.len() == 0 && b.is_empty() && b.capacity() == N, "[C12] boxed(): not an empty buffer of capacity N");
    nd::reached();
}

pub(crate) fn c_clone<const N: usize>() {
    let b = any_tokbuf::<N>();
    watch(&b);
    let old = ids_of(&b);
    let first = next_id();
    let c = b.clone();
    unwatch();
    post_common(&c, "clone");
    let cn = ids_of(&c);
    check!(ids_of(&b).eq(&old), "[C12] clone: source changed");
    check!(cn.len == old.len, "[C12] clone: wrong length");
    let mut i = 0;
    while i < old.len && i < cn.len {
        let id = cn.a[i] as usize;
        check!(id >= first && id < MAXID && parent(id) == old.a[i], "[C12] clone: position is not a fresh clone of the source element at the same position");
        i += 1;
    }
    let mut both = old; let mut k = 0; while k < cn.len { both.push(cn.a[k]); k += 1; }
    check!(ledger_ok(&both, &Seq::new()), "[C03,C12] clone: element shared, lost or destroyed");
    nd::reached();
    core::mem::forget(b); core::mem::forget(c);
}

pub(crate) fn c_clone_from<const N: usize>() {
    let mut dst = any_tokbuf::<N>();
    let src = any_tokbuf::<N>();
    watch(&dst);
    let old_dst = ids_of(&dst); let old_src = ids_of(&src);
    let first = next_id();
    dst.clone_from(&src);
    unwatch();
    post_common(&dst, "clone_from");
    let dn = ids_of(&dst);
    check!(ids_of(&src).eq(&old_src), "[C12] clone_from: source changed");
    check!(dn.len == old_src.len, "[C12] clone_from: wrong length");
    let mut i = 0;
    while i < old_src.len && i < dn.len {
        let id = dn.a[i] as usize;
        check!(id >= first && id < MAXID && parent(id) == old_src.a[i], "[C12] clone_from: position is not a fresh clone of the source element at the same position");
        i += 1;
    }
    let mut both = old_src; let mut k = 0; while k < dn.len { both.push(dn.a[k]); k += 1; }
    check!(ledger_ok(&both, &Seq::new()), "[C03,C12] clone_from: old contents not destroyed exactly once / element shared or lost");
    nd::reached();
    core::mem::forget(dst); core::mem::forget(src);
}

#[cfg(feature = "alloc")]
pub(crate) fn c_to_vec<const N: usize>() {
    let b = any_tokbuf::<N>();
    watch(&b);
    let old = ids_of(&b);
    let first = next_id();
    let v = b.to_vec();
    unwatch();
    check!(ids_of(&b).eq(&old), "[C12] to_vec: source changed");
    check!(v.len() == old.len, "[C07,C12] to_vec: wrong length");
    let mut both = old;
    let mut i = 0;
    while i < old.len && i < v.len() {
        let id = v[i].id as usize;
        check!(id >= first && id < MAXID && parent(id) == old.a[i], "[C07,C12] to_vec: element is not a fresh clone of the element at the same position");
        both.push(v[i].id);
        i += 1;
    }
    check!(ledger_ok(&both, &Seq::new()), "[C03,C12] to_vec: element shared, lost or destroyed");
    nd::reached();
    core::mem::forget(b); core::mem::forget(v);
}

/// owning iterator: any interleaving of next / next_back, then dropped after any number of steps
pub(crate) fn c_into_iter<const N: usize>() {
    let b = any_tokbuf::<N>();
    let old = ids_of(&b);
    let mut it = b.into_iter();
    let mut m = old; let mut held = Seq::new();
    let steps = nd::usize_in(0, N + 1);
    let mut k = 0;
    while k < steps {
        check!(it.len() == m.len && it.size_hint() == (m.len, Some(m.len)), "[C08] into_iter: len()/size_hint() differ from the number of elements not yet produced");
        if nd::any_bool() {
            let r = it.next(); let mr = m.pop_front();
            check!(opt_id(&r) == mr, "[C08,C12] into_iter: next() does not yield the front-most remaining element");
            if let Some(t) = r { held.push(t.id); core::mem::forget(t); }
        } else {
            let r = it.next_back(); let mr = m.pop_back();
            check!(opt_id(&r) == mr, "[C08,C12] into_iter: next_back() does not yield the back-most remaining element");
            if let Some(t) = r { held.push(t.id); core::mem::forget(t); }
        }
        k += 1;
    }
    check!(ledger_ok(&m, &held), "[C03] into_iter: element lost, duplicated or destroyed while iterating");
    drop(it);
    check!(ledger_ok(&Seq::new(), &held), "[C03,C12] into_iter: remaining elements not destroyed exactly once when the iterator is dropped");
    nd::reached();
}

// ----- ranges: every (Bound, Bound) pair (C08 C09 C11) --------------------------------------

pub(crate) fn any_bound() -> Bound<usize> {
    let k = nd::usize_in(0, 2);
    let v = nd::any_usize();
    if k == 0 { Bound::Included(v) } else if k == 1 { Bound::Excluded(v) } else { Bound::Unbounded }
}

/// mathematical meaning of a pair of bounds; None = outside the documented domain (must panic)
pub(crate) fn bounds_to_range(lo: Bound<usize>, hi: Bound<usize>, len: usize) -> Option<(usize, usize)> {
    let s: u128 = match lo { Bound::Included(x) => x as u128, Bound::Excluded(x) => x as u128 + 1, Bound::Unbounded => 0 };
    let e: u128 = match hi { Bound::Included(x) => x as u128 + 1, Bound::Excluded(x) => x as u128, Bound::Unbounded => len as u128 };
    if s <= e && e <= len as u128 { Some((s as usize, e as usize)) } else { None }
}

fn sub_seq(s: &Seq, a: usize, e: usize) -> Seq { let mut m = *s; m.keep_first(e); let k = e - a; m.keep_last(k); m }

/// shared-borrow iterators: iter() / range(R), any interleaving of next / next_back, exact len,
/// clone continues independently, None forever after exhaustion
pub(crate) fn c_iter_script<const N: usize>() {
    let b = any_tokbuf::<N>();
    let old = ids_of(&b);
    let (lo, hi) = (any_bound(), any_bound());
    let rng = bounds_to_range(lo, hi, old.len);
    nd::assume(rng.is_some());
    let (s, e) = rng.unwrap();
    let mut it = if nd::any_bool() { b.range((lo, hi)) } else { nd::assume(s == 0 && e == old.len); b.iter() };
    let mut m = sub_seq(&old, s, e);
    let mut pos_front = s; let mut pos_back = e;
    let steps = nd::usize_in(0, N + 1);
    let clone_at = nd::usize_in(0, N + 1);
    let mut k = 0;
    while k < steps {
        check!(it.len() == m.len && it.size_hint() == (m.len, Some(m.len)), "[C08] iter/range: len()/size_hint() differ from the number of elements not yet produced");
        if k == clone_at {
            // a clone continues independently from the same point
            let mut c = it.clone();
            let r1 = c.next().map(|t| t.id);
            check!(r1 == m.get(0) && it.len() == m.len, "[C08] iter/range: clone does not continue from the same point, or advancing it moved the original");
        }
        if nd::any_bool() {
            let r = it.next(); let mr = m.pop_front();
            match r { Some(t) => { check!(in_window(&b, t as *const Tok), "[C04] iter/range: next() handed out a reference to a slot that holds no live element");
                                   check!(mr == Some(t.id) && (t as *const Tok) == slot_ptr(&b, pos_front), "[C07,C08] iter/range: next() is not the front-most selected element not yet produced"); pos_front += 1; }
                      None => check!(mr.is_none(), "[C08] iter/range: next() returned None before every selected element was produced") }
        } else {
            let r = it.next_back(); let mr = m.pop_back();
            match r { Some(t) => { check!(in_window(&b, t as *const Tok), "[C04] iter/range: next_back() handed out a reference to a slot that holds no live element");
                                   pos_back = pos_back.wrapping_sub(1); check!(mr == Some(t.id) && (t as *const Tok) == slot_ptr(&b, pos_back % (N + 1)), "[C07,C08] iter/range: next_back() is not the back-most selected element not yet produced"); }
                      None => check!(mr.is_none(), "[C08] iter/range: next_back() returned None before every selected element was produced") }
        }
        k += 1;
    }
    if m.len == 0 { check!(it.next().is_none() && it.next_back().is_none() && it.next().is_none() && it.len() == 0, "[C08] iter/range: exhausted iterator is not fused (None forever)"); }
    let d: Iter<'_, Tok> = Default::default();
    check!(d.len() == 0 && d.clone().next().is_none(), "[C08] Iter::default() is not empty");
    check!(ids_of(&b).eq(&old), "[C07,C08] iterating changed the buffer");
    nd::reached();
    core::mem::forget(b);
}

pub(crate) fn c_iter_mut_script<const N: usize>() {
    let mut b = any_tokbuf::<N>();
    let old = ids_of(&b);
    let (lo, hi) = (any_bound(), any_bound());
    let rng = bounds_to_range(lo, hi, old.len);
    nd::assume(rng.is_some());
    let (s, e) = rng.unwrap();
    let base = b.items.as_ptr() as *const Tok; let (st, _sz) = (b.start, b.size);
    let whole = nd::any_bool();
    if whole { nd::assume(s == 0 && e == old.len); }
    {
        let mut it = if whole { b.iter_mut() } else { b.range_mut((lo, hi)) };
        let mut m = sub_seq(&old, s, e);
        let mut pos_front = s; let mut pos_back = e;
        let steps = nd::usize_in(0, N + 1);
        let mut k = 0;
        while k < steps {
            check!(it.len() == m.len && it.size_hint() == (m.len, Some(m.len)), "[C08] iter_mut/range_mut: len()/size_hint() differ from the number of elements not yet produced");
            if nd::any_bool() {
                let r = it.next(); let mr = m.pop_front();
                match r { Some(t) => { check!(mr == Some(t.id) && (t as *mut Tok as *const Tok) == unsafe { base.add(phys(st, pos_front, N)) }, "[C07,C08] iter_mut/range_mut: next() does not address the front-most selected element not yet produced"); pos_front += 1; }
                          None => check!(mr.is_none(), "[C08] iter_mut/range_mut: next() returned None early") }
            } else {
                let r = it.next_back(); let mr = m.pop_back();
                match r { Some(t) => { pos_back -= 1; check!(mr == Some(t.id) && (t as *mut Tok as *const Tok) == unsafe { base.add(phys(st, pos_back, N)) }, "[C07,C08] iter_mut/range_mut: next_back() does not address the back-most selected element not yet produced"); }
                          None => check!(mr.is_none(), "[C08] iter_mut/range_mut: next_back() returned None early") }
            }
            k += 1;
        }
        if m.len == 0 { check!(it.next().is_none() && it.next_back().is_none() && it.len() == 0, "[C08] iter_mut/range_mut: exhausted iterator is not fused"); }
    }
    let d: IterMut<'_, Tok> = Default::default();
    check!(d.len() == 0, "[C08] IterMut::default() is not empty");
    check!(ids_of(&b).eq(&old), "[C07,C08] iterating changed the buffer");
    nd::reached();
    core::mem::forget(b);
}

/// documented panics (C11): the marker after the call must be unreachable
pub(crate) fn c_range_must_panic<const N: usize>() {
    let mut b = any_tokbuf::<N>();
    let len = b.len();
    let (lo, hi) = (any_bound(), any_bound());
    nd::assume(bounds_to_range(lo, hi, len).is_none());
    let which = nd::usize_in(0, 2);
    if which == 0 { let it = b.range((lo, hi)); check!(false, "[C11] MUST-PANIC: range() returned although start > end or end > len"); core::mem::forget(it); }
    else if which == 1 { let it = b.range_mut((lo, hi)); check!(false, "[C11] MUST-PANIC: range_mut() returned although start > end or end > len"); core::mem::forget(it); }
    else { let d = b.drain((lo, hi)); check!(false, "[C11] MUST-PANIC: drain() returned although start > end or end > len"); core::mem::forget(d); }
    core::mem::forget(b);
}

pub(crate) fn c_index_must_panic<const N: usize>() {
    let mut b = any_tokbuf::<N>();
    let len = b.len();
    let i = nd::any_usize(); let j = nd::any_usize();
    let which = nd::usize_in(0, 2);
    if which == 0 { nd::assume(i >= len); let t = &b[i]; check!(false, "[C11] MUST-PANIC: index out of bounds returned a reference"); }
    else if which == 1 { nd::assume(i >= len); let t = &mut b[i]; check!(false, "[C11] MUST-PANIC: index_mut out of bounds returned a reference"); }
    else { nd::assume(i >= len || j >= len); b.swap(i, j); check!(false, "[C11] MUST-PANIC: swap with an index out of bounds returned"); }
    core::mem::forget(b);
}

// ----- drain (C01 C03 C05 C09 C10 C20) ------------------------------------------------------

pub(crate) fn c_drain<const N: usize>() {
    let mut b = any_tokbuf::<N>();
    watch(&b);
    let old = ids_of(&b); let old_slots = slots_of(&b);
    let (lo, hi) = (any_bound(), any_bound());
    let rng = bounds_to_range(lo, hi, old.len);
    nd::assume(rng.is_some());
    let (a, e) = rng.unwrap();
    let bp = &b as *const CircularBuffer<N, Tok>;
    let mut m = sub_seq(&old, a, e);
    let mut held = Seq::new();
    {
        let mut d = b.drain((lo, hi));
        check!(unsafe { (*bp).size } == 0 && unsafe { wf(&*bp) }, "[C10] drain: the buffer is not empty-and-valid while the drain is alive");
        let steps = nd::usize_in(0, N + 1);
        let mut k = 0;
        while k < steps {
            check!(d.len() == m.len && d.size_hint() == (m.len, Some(m.len)), "[C09] drain: len()/size_hint() differ from the number of elements not yet produced");
            if nd::any_bool() {
                let r = d.next(); let mr = m.pop_front();
                check!(opt_id(&r) == mr, "[C09] drain: next() is not the front-most element of the range not yet produced");
                if let Some(t) = r { held.push(t.id); core::mem::forget(t); }
            } else {
                let r = d.next_back(); let mr = m.pop_back();
                check!(opt_id(&r) == mr, "[C09] drain: next_back() is not the back-most element of the range not yet produced");
                if let Some(t) = r { held.push(t.id); core::mem::forget(t); }
            }
            check!(unsafe { (*bp).size } == 0, "[C10] drain: the buffer is not empty while the drain is alive");
            k += 1;
        }
        if m.len == 0 { check!(d.next().is_none() && d.next_back().is_none() && d.len() == 0, "[C09] drain: exhausted drain is not fused"); }
        // nothing destroyed yet, nothing duplicated
        let mut rest = sub_seq(&old, 0, a); rest.append(&m); rest.append(&sub_seq(&old, e, old.len));
        check!(ledger_ok(&rest, &held), "[C03,C04,C09] drain: element destroyed or duplicated while draining");
        drop(d);
    }
    unwatch();
    post_common(&b, "drain");
    let new = ids_of(&b);
    let mut want = sub_seq(&old, 0, a); want.append(&sub_seq(&old, e, old.len));
    check!(new.eq(&want), "[C01,C09] drain: buffer is not (elements before the range) ++ (elements after the range) in order");
    check!(b.len() == old.len - (e - a), "[C01,C09] drain: wrong length afterwards");
    check!(ledger_ok(&new, &held), "[C03,C04,C09] drain: a drained element not handed out was not destroyed exactly once, or an element already handed out (a moved-out slot) was destroyed");
    check!(relocated(&old_slots, &slots_of(&b), next_id()) <= old.len - e, "[C20] drain(i..j) relocates more than len-j surviving elements");
    nd::reached();
    core::mem::forget(b);
}

/// leaking a drain (C10)
pub(crate) fn c_drain_leak<const N: usize>() {
    let mut b = any_tokbuf::<N>();
    let old = ids_of(&b);
    let (lo, hi) = (any_bound(), any_bound());
    let rng = bounds_to_range(lo, hi, old.len);
    nd::assume(rng.is_some());
    let (a, e) = rng.unwrap();
    let mut m = sub_seq(&old, a, e);
    let mut held = Seq::new();
    {
        let mut d = b.drain((lo, hi));
        let steps = nd::usize_in(0, N + 1);
        let mut k = 0;
        while k < steps {
            if nd::any_bool() { if let Some(t) = d.next() { held.push(t.id); core::mem::forget(t); } }
            else { if let Some(t) = d.next_back() { held.push(t.id); core::mem::forget(t); } }
            k += 1;
        }
        core::mem::forget(d);
    }
    post_common(&b, "drain (leaked)");
    let new = ids_of(&b);
    // valid sequence of live, distinct elements drawn from the original contents, disjoint from the elements handed out
    let mut i = 0;
    while i < new.len {
        let id = new.a[i];
        check!(old.contains(id) && !held.contains(id) && drops(id as usize) == 0, "[C10] leaked drain: buffer holds an element that is dead, foreign, or was already handed out");
        let mut j = 0; while j < i { check!(new.a[j] != id, "[C10] leaked drain: buffer holds an element twice"); j += 1; }
        i += 1;
    }
    // keeps working normally, and nothing is destroyed twice (Tok::drop asserts that)
    let x = Tok::fresh(); let xid = x.id;
    let mut mm = new;
    let r = b.push_back(x); let mr = mm.push_back_capped(xid, N);
    check!(opt_id(&r) == mr && ids_of(&b).eq(&mm), "[C10] leaked drain: buffer does not behave like a normal buffer afterwards");
    core::mem::forget(r);
    let snapshot = ids_of(&b);
    unsafe { core::ptr::drop_in_place(&mut b); }
    let mut i = 0; while i < held.len { check!(drops(held.a[i] as usize) == 0, "[C10] leaked drain: an element handed out by the drain was destroyed by the buffer"); i += 1; }
    let mut i = 0; while i < snapshot.len { if snapshot.a[i] != xid || mr.is_none() { check!(drops(snapshot.a[i] as usize) == 1 || (mr == Some(snapshot.a[i])), "[C10] leaked drain: element of the buffer not destroyed when the buffer is dropped"); } i += 1; }
    nd::reached();
    core::mem::forget(b);
}

// ----- equality, ordering, hashing over u8 (C13) --------------------------------------------

fn seq_lex_cmp(a: &Seq, b: &Seq) -> core::cmp::Ordering {
    let mut i = 0;
    while i < a.len && i < b.len {
        if a.a[i] < b.a[i] { return core::cmp::Ordering::Less; }
        if a.a[i] > b.a[i] { return core::cmp::Ordering::Greater; }
        i += 1;
    }
    a.len.cmp(&b.len)
}

pub(crate) fn c_eq<const N: usize, const M: usize>() {
    let a = any_u8buf::<N>(); let b = any_u8buf::<M>();
    let sa = bytes_of(&a); let sb = bytes_of(&b);
    let same = sa.eq(&sb);
    check!((a == b) == same, "[C13] buffer == buffer differs from equality of the element sequences");
    check!((b == a) == same, "[C13] buffer == buffer is not symmetric / depends on layout or capacity");
    check!(a.partial_cmp(&b) == Some(seq_lex_cmp(&sa, &sb)), "[C13] partial_cmp is not the lexicographic order of the element sequences");
    nd::reached();
}

pub(crate) fn c_eq_slice<const N: usize, const L: usize>() {
    let a = any_u8buf::<N>();
    let sa = bytes_of(&a);
    let mut arr = [0u8; L];
    let mut i = 0; while i < L { arr[i] = nd::any_u8(); i += 1; }
    let n = nd::usize_in(0, L);
    let mut ss = Seq::new(); let mut i = 0; while i < n { ss.push(arr[i]); i += 1; }
    let same = sa.eq(&ss);
    let sl: &[u8] = &arr[..n];
    check!((a == *sl) == same, "[C13] buffer == [U] differs from equality of the element sequences");
    check!((a == sl) == same, "[C13] buffer == &[U] differs from equality of the element sequences");
    let mut arr2 = arr;
    { let slm: &mut [u8] = &mut arr2[..n]; check!((a == slm) == same, "[C13] buffer == &mut [U] differs from equality of the element sequences"); }
    // whole-array forms
    let mut sw = Seq::new(); let mut i = 0; while i < L { sw.push(arr[i]); i += 1; }
    let same_w = sa.eq(&sw);
    check!((a == arr) == same_w, "[C13] buffer == [U; M] differs from equality of the element sequences");
    check!((a == &arr) == same_w, "[C13] buffer == &[U; M] differs from equality of the element sequences");
    { let am: &mut [u8; L] = &mut arr2; check!((a == am) == same_w, "[C13] buffer == &mut [U; M] differs from equality of the element sequences"); }
    nd::reached();
}

pub(crate) struct RecHasher { pub log: Seq, pub words: [u64; CAP], pub nw: usize }
impl core::hash::Hasher for RecHasher {
    fn finish(&self) -> u64 { 0 }
    fn write(&mut self, bytes: &[u8]) { let mut i = 0; while i < bytes.len() { self.log.push(bytes[i]); i += 1; } self.log.push(254); }
    fn write_u8(&mut self, i: u8) { self.log.push(i); self.log.push(253); }
    fn write_usize(&mut self, i: usize) { if self.nw < CAP { self.words[self.nw] = i as u64; self.nw += 1; } self.log.push(252); }
}

pub(crate) fn c_hash_ord<const N: usize>() {
    use core::hash::Hash;
    let a = any_u8buf::<N>(); let b = any_u8buf::<N>();
    let sa = bytes_of(&a); let sb = bytes_of(&b);
    check!(a.cmp(&b) == seq_lex_cmp(&sa, &sb), "[C13] cmp is not the lexicographic order of the element sequences");
    let mut ha = RecHasher { log: Seq::new(), words: [0; CAP], nw: 0 };
    let mut hb = RecHasher { log: Seq::new(), words: [0; CAP], nw: 0 };
    a.hash(&mut ha); b.hash(&mut hb);
    if sa.eq(&sb) {
        let mut same = ha.log.eq(&hb.log) && ha.nw == hb.nw;
        let mut i = 0; while i < ha.nw && i < hb.nw { if ha.words[i] != hb.words[i] { same = false; } i += 1; }
        check!(same, "[C04,C13] equal buffers of the same capacity feed different data to the Hasher (hash depends on layout)");
    }
    nd::reached();
}

// ----- byte-stream I/O (C14, C16) -----------------------------------------------------------

#[cfg(feature = "std")]
pub(crate) fn c_io_write<const N: usize, const L: usize>() {
    use std::io::Write;
    let mut b = any_u8buf::<N>();
    let old = bytes_of(&b);
    let mut src = [0u8; L]; let mut i = 0; while i < L { src[i] = nd::any_u8(); i += 1; }
    let n = nd::usize_in(0, L);
    let r = b.write(&src[..n]);
    check!(wf(&b), "[C14] write: representation invariant broken");
    match r { Ok(k) => check!(k == n, "[C14] write did not report the full input length"), Err(_) => check!(false, "[C14] write returned an error") }
    let mut m = old; let mut i = 0; while i < n { m.push(src[i]); i += 1; }
    m.keep_last(N);
    check!(bytes_of(&b).eq(&m), "[C14] write: buffer does not hold the last N bytes of (old contents ++ input)");
    check!(b.flush().is_ok(), "[C14] flush returned an error");
    check!(bytes_of(&b).eq(&m), "[C14] flush changed the buffer");
    nd::reached();
}

#[cfg(feature = "std")]
pub(crate) fn c_io_read<const N: usize, const D: usize>() {
    use std::io::Read;
    let mut b = any_u8buf::<N>();
    let old = bytes_of(&b);
    let mut dst = [7u8; D];
    let d = nd::usize_in(0, D);
    let r = b.read(&mut dst[..d]);
    check!(wf(&b), "[C14] read: representation invariant broken");
    let want = if d < old.len { d } else { old.len };
    match r { Ok(k) => check!(k == want, "[C14] read did not return min(destination length, buffered length)"), Err(_) => check!(false, "[C14] read returned an error") }
    let mut i = 0; while i < want { check!(dst[i] == old.a[i], "[C14] read: bytes delivered are not the front bytes in order"); i += 1; }
    let mut m = old; m.keep_last(old.len - want);
    check!(bytes_of(&b).eq(&m), "[C14] read: did not remove exactly the bytes delivered from the front");
    nd::reached();
}

#[cfg(feature = "std")]
pub(crate) fn c_io_bufread<const N: usize>() {
    use std::io::BufRead;
    let mut b = any_u8buf::<N>();
    let old = bytes_of(&b);
    {
        let r = b.fill_buf();
        match r {
            Ok(s) => {
                check!(s.len() <= old.len && (old.len == 0 || s.len() > 0), "[C14] fill_buf: not a non-empty prefix of a non-empty buffer");
                let mut i = 0; while i < s.len() && i < old.len { check!(s[i] == old.a[i], "[C14] fill_buf: returned bytes are not a prefix of the contents"); i += 1; }
            }
            Err(_) => check!(false, "[C14] fill_buf returned an error"),
        }
    }
    check!(bytes_of(&b).eq(&old), "[C14] fill_buf changed the buffer");
    let k = nd::any_usize();
    b.consume(k);
    check!(wf(&b), "[C14] consume: representation invariant broken");
    let want = if k < old.len { k } else { old.len };
    let mut m = old; m.keep_last(old.len - want);
    check!(bytes_of(&b).eq(&m), "[C14] consume(k) did not remove exactly the first min(k, len) bytes");
    nd::reached();
}

/// bitwise copy of a byte buffer (same layout, same garbage) - for pairwise comparison of impls
pub(crate) fn dup_u8buf<const N: usize>(b: &CircularBuffer<N, u8>) -> CircularBuffer<N, u8> {
    unsafe { core::ptr::read(b) }
}

#[cfg(all(feature = "std", feature = "embedded-io"))]
pub(crate) fn c_eio_vs_std<const N: usize, const L: usize>() {
    let mut a = any_u8buf::<N>();
    let mut b = dup_u8buf(&a);
    let op = nd::usize_in(0, 4);
    let mut src = [0u8; L]; let mut i = 0; while i < L { src[i] = nd::any_u8(); i += 1; }
    let n = nd::usize_in(0, L);
    if op == 0 {
        let ra = std::io::Write::write(&mut a, &src[..n]);
        let rb = ::embedded_io::Write::write(&mut b, &src[..n]);
        match (ra, rb) { (Ok(x), Ok(y)) => check!(x == y, "[C16] embedded-io write returns a different count than std::io"), _ => check!(false, "[C16] write failed") }
    } else if op == 1 {
        let mut da = [0u8; L]; let mut db = [0u8; L];
        let ra = std::io::Read::read(&mut a, &mut da[..n]);
        let rb = ::embedded_io::Read::read(&mut b, &mut db[..n]);
        match (ra, rb) { (Ok(x), Ok(y)) => { check!(x == y, "[C16] embedded-io read returns a different count than std::io");
                                             let mut i = 0; while i < x { check!(da[i] == db[i], "[C16] embedded-io read delivers different bytes than std::io"); i += 1; } }
                         _ => check!(false, "[C16] read failed") }
    } else if op == 2 {
        let la = { let s = std::io::BufRead::fill_buf(&mut a).unwrap(); (s.len(), if s.len() > 0 { s[0] } else { 0 }) };
        let lb = match ::embedded_io::BufRead::fill_buf(&mut b) { Ok(s) => (s.len(), if s.len() > 0 { s[0] } else { 0 }), Err(_) => { check!(false, "[C16] embedded-io fill_buf failed"); (0, 0) } };
        check!(la == lb, "[C16] embedded-io fill_buf returns a different slice than std::io");
    } else if op == 3 {
        let k = nd::any_usize();
        std::io::BufRead::consume(&mut a, k);
        ::embedded_io::BufRead::consume(&mut b, k);
    } else {
        check!(std::io::Write::flush(&mut a).is_ok() && ::embedded_io::Write::flush(&mut b).is_ok(), "[C16] flush failed");
    }
    check!(wf(&b) && bytes_of(&a).eq(&bytes_of(&b)), "[C16] embedded-io impl leaves different contents than the std::io impl");
    nd::reached();
}

#[cfg(all(feature = "std", feature = "embedded-io-async"))]
pub(crate) fn poll_once<F: core::future::Future>(f: F) -> Option<F::Output> {
    use core::task::{Context, Poll, RawWaker, RawWakerVTable, Waker};
    const VT: RawWakerVTable = RawWakerVTable::new(|_| RawWaker::new(core::ptr::null(), &VT), |_| {}, |_| {}, |_| {});
    let waker = unsafe { Waker::from_raw(RawWaker::new(core::ptr::null(), &VT)) };
    let mut cx = Context::from_waker(&waker);
    let mut f = core::pin::pin!(f);
    match f.as_mut().poll(&mut cx) { Poll::Ready(v) => Some(v), Poll::Pending => None }
}

#[cfg(all(feature = "std", feature = "embedded-io-async"))]
pub(crate) fn c_eio_async_vs_std<const N: usize, const L: usize>() {
    let mut a = any_u8buf::<N>();
    let mut b = dup_u8buf(&a);
    let op = nd::usize_in(0, 4);
    let mut src = [0u8; L]; let mut i = 0; while i < L { src[i] = nd::any_u8(); i += 1; }
    let n = nd::usize_in(0, L);
    if op == 0 {
        let ra = std::io::Write::write(&mut a, &src[..n]);
        match poll_once(::embedded_io_async::Write::write(&mut b, &src[..n])) {
            Some(Ok(y)) => check!(ra.is_ok() && ra.unwrap() == y, "[C16] embedded-io-async write returns a different count than std::io"),
            Some(Err(_)) => check!(false, "[C16] embedded-io-async write failed"),
            None => check!(false, "[C16] embedded-io-async write returned Pending") }
    } else if op == 1 {
        let mut da = [0u8; L]; let mut db = [0u8; L];
        let ra = std::io::Read::read(&mut a, &mut da[..n]);
        match poll_once(::embedded_io_async::Read::read(&mut b, &mut db[..n])) {
            Some(Ok(y)) => { check!(ra.is_ok() && ra.unwrap() == y, "[C16] embedded-io-async read returns a different count than std::io");
                             let mut i = 0; while i < y { check!(da[i] == db[i], "[C16] embedded-io-async read delivers different bytes than std::io"); i += 1; } }
            Some(Err(_)) => check!(false, "[C16] embedded-io-async read failed"),
            None => check!(false, "[C16] embedded-io-async read returned Pending") }
    } else if op == 2 {
        let la = { let s = std::io::BufRead::fill_buf(&mut a).unwrap(); (s.len(), if s.len() > 0 { s[0] } else { 0 }) };
        match poll_once(::embedded_io_async::BufRead::fill_buf(&mut b)) {
            Some(Ok(s)) => check!(la == (s.len(), if s.len() > 0 { s[0] } else { 0 }), "[C16] embedded-io-async fill_buf returns a different slice than std::io"),
            Some(Err(_)) => check!(false, "[C16] embedded-io-async fill_buf failed"),
            None => check!(false, "[C16] embedded-io-async fill_buf returned Pending") }
    } else if op == 3 {
        let k = nd::any_usize();
        std::io::BufRead::consume(&mut a, k);
        ::embedded_io_async::BufRead::consume(&mut b, k);
    } else {
        match poll_once(::embedded_io_async::Write::flush(&mut b)) { Some(Ok(())) => {}, _ => check!(false, "[C16] embedded-io-async flush failed or returned Pending") }
    }
    check!(wf(&b) && bytes_of(&a).eq(&bytes_of(&b)), "[C16] embedded-io-async impl leaves different contents than the std::io impl");
    nd::reached();
}

// ----- zero-sized elements (C19) ------------------------------------------------------------

pub(crate) struct Z;
impl Clone for Z { fn clone(&self) -> Z { Z } }
pub(crate) static mut ZDROPS: usize = 0;
impl Drop for Z { fn drop(&mut self) { unsafe { ZDROPS += 1; } } }
fn zdrops() -> usize { unsafe { ZDROPS } }

pub(crate) fn any_zbuf<const N: usize>() -> CircularBuffer<N, Z> {
    let mut b = CircularBuffer::<N, Z>::new();
    if N == 0 { return b; }
    b.start = nd::usize_in(0, N - 1);
    b.size = nd::usize_in(0, N);
    b
}

pub(crate) fn c_zst<const N: usize>() {
    unsafe { ZDROPS = 0; }
    let mut b = any_zbuf::<N>();
    let len0 = b.len();
    let op = nd::usize_in(0, 9);
    let arg = nd::any_usize();
    let mut len = len0; let mut dropped = 0usize;
    if op == 0 { let r = b.push_back(Z); if N == 0 || len0 == N { check!(r.is_some(), "[C19] ZST push_back: displaced element not returned"); } else { check!(r.is_none(), "[C19] ZST push_back"); len += 1; } core::mem::forget(r); }
    else if op == 1 { let r = b.push_front(Z); if N == 0 || len0 == N { check!(r.is_some(), "[C19] ZST push_front: displaced element not returned"); } else { check!(r.is_none(), "[C19] ZST push_front"); len += 1; } core::mem::forget(r); }
    else if op == 2 { let r = b.pop_back(); check!(r.is_some() == (len0 > 0), "[C19] ZST pop_back"); if len0 > 0 { len -= 1; } core::mem::forget(r); }
    else if op == 3 { let r = b.pop_front(); check!(r.is_some() == (len0 > 0), "[C19] ZST pop_front"); if len0 > 0 { len -= 1; } core::mem::forget(r); }
    else if op == 4 { let r = b.remove(arg); check!(r.is_some() == (arg < len0), "[C19] ZST remove"); if arg < len0 { len -= 1; } core::mem::forget(r); }
    else if op == 5 { b.truncate_back(arg); if arg < len0 { dropped = len0 - arg; len = arg; } }
    else if op == 6 { b.truncate_front(arg); if arg < len0 { dropped = len0 - arg; len = arg; } }
    else if op == 7 { b.clear(); dropped = len0; len = 0; }
    else if op == 8 { let r = b.swap_remove_back(arg); check!(r.is_some() == (arg < len0), "[C19] ZST swap_remove_back"); if arg < len0 { len -= 1; } core::mem::forget(r); }
    else { let (lo, hi) = (any_bound(), any_bound()); let rng = bounds_to_range(lo, hi, len0); nd::assume(rng.is_some()); let (a, e) = rng.unwrap();
           { let mut d = b.drain((lo, hi)); if nd::any_bool() { let r = d.next(); if let Some(z) = r { core::mem::forget(z); if e > a { dropped = e - a - 1; } } else { dropped = 0; } } else { dropped = e - a; } }
           len = len0 - (e - a); }
    check!(wf(&b) && b.len() == len && b.is_empty() == (len == 0) && b.is_full() == (len == N), "[C19] ZST: length / emptiness / fullness do not follow the sequence semantics");
    check!(zdrops() == dropped, "[C03,C19] ZST: number of destructor runs differs from the number of elements removed and not returned");
    unsafe { core::ptr::drop_in_place(&mut b); }
    check!(zdrops() == dropped + len, "[C03,C19] ZST: dropping the buffer does not destroy exactly the remaining elements");
    nd::reached();
    core::mem::forget(b);
}

// ----- no allocation (C17): allocator entry points are stubbed with this ----------------------

pub(crate) unsafe fn no_alloc(_l: core::alloc::Layout) -> *mut u8 { panic!("[C17] heap allocation performed by an operation that must not allocate") }
pub(crate) unsafe fn no_realloc(_p: *mut u8, _l: core::alloc::Layout, _n: usize) -> *mut u8 { panic!("[C17] heap reallocation performed by an operation that must not allocate") }

// ----- Debug (C07 C13): output equals that of the equivalent slice ---------------------------

pub(crate) struct Dbg(pub u8);
impl core::fmt::Debug for Dbg {
    fn fmt(&self, f: &mut core::fmt::Formatter<'_>) -> core::fmt::Result {
        use core::fmt::Write;
        f.write_char((b'a' + (self.0 & 7)) as char)
    }
}

pub(crate) struct Sink { pub buf: [u8; 16], pub n: usize }
impl core::fmt::Write for Sink {
    fn write_str(&mut self, s: &str) -> core::fmt::Result {
        let b = s.as_bytes();
        let mut i = 0;
        while i < b.len() { if self.n < 16 { self.buf[self.n] = b[i]; } self.n += 1; i += 1; }
        Ok(())
    }
}

pub(crate) fn c_debug<const N: usize>() {
    use core::fmt::Write;
    let mut b = CircularBuffer::<N, Dbg>::new();
    if N > 0 {
        b.start = nd::usize_in(0, N - 1);
        b.size = nd::usize_in(0, N);
        let mut i = 0;
        while i < b.size { b.items[phys(b.start, i, N)].write(Dbg(nd::any_u8())); i += 1; }
    }
    // the equivalent slice
    let mut flat: [Dbg; N] = core::array::from_fn(|_| Dbg(0));
    let mut i = 0;
    while i < b.size { flat[i] = Dbg(unsafe { (*b.items[phys(b.start, i, N)].as_ptr()).0 }); i += 1; }
    let mut s1 = Sink { buf: [0; 16], n: 0 };
    let mut s2 = Sink { buf: [0; 16], n: 0 };
    let alt = nd::any_bool();
    let (r1, r2) = if alt { (write!(s1, "{:#?}", b), write!(s2, "{:#?}", &flat[..b.size])) } else { (write!(s1, "{:?}", b), write!(s2, "{:?}", &flat[..b.size])) };
    check!(r1.is_ok() == r2.is_ok(), "[C07,C13] Debug: formatting the buffer fails where formatting the slice does not");
    let mut same = s1.n == s2.n;
    unroll16!(k, { if k < s1.n && k < s2.n && s1.buf[k] != s2.buf[k] { same = false; } });
    check!(same, "[C07,C13] Debug output of the buffer differs from that of the equivalent slice");
    nd::reached();
    core::mem::forget(b);
}

// ----- Extend<&T> for Copy elements (C01 C12) ------------------------------------------------

pub(crate) fn c_extend_ref<const N: usize, const L: usize>() {
    let mut b = any_u8buf::<N>();
    let old = bytes_of(&b);
    let mut src = [0u8; L]; let mut i = 0; while i < L { src[i] = nd::any_u8(); i += 1; }
    let n = nd::usize_in(0, L);
    b.extend(&src[..n]);
    check!(wf(&b), "[C01,C12] extend(&T): representation invariant broken");
    let mut m = old; let mut i = 0; while i < n { m.push(src[i]); i += 1; }
    m.keep_last(N);
    check!(bytes_of(&b).eq(&m), "[C01,C12] extend(&T): contents are not the last N of (old contents ++ copied items)");
    nd::reached();
}

// ----- function contracts (attribute form) on the index arithmetic (C19, C01) ----------------
// proof_for_contract harnesses: loop-free, arguments range over all of usize = a complete proof

#[cfg(kani)]
pub(crate) fn fc_add_mod() { let _ = crate::add_mod(kani::any(), kani::any(), kani::any()); }
#[cfg(kani)]
pub(crate) fn fc_sub_mod() { let _ = crate::sub_mod(kani::any(), kani::any(), kani::any()); }

// ----- elements WITHOUT drop glue (mem::needs_drop::<T>() == false, but not Copy): C10 C09 -----------------

pub(crate) struct Plain { pub id: u8 }

pub(crate) fn any_plainbuf<const N: usize>() -> CircularBuffer<N, Plain> {
    let mut b = CircularBuffer::<N, Plain>::new();
    if N == 0 { return b; }
    b.start = nd::usize_in(0, N - 1);
    b.size = nd::usize_in(0, N);
    let mut i = 0;
    while i < b.size { b.items[phys(b.start, i, N)].write(Plain { id: i as u8 }); i += 1; }
    b
}

fn plain_ids<const N: usize>(b: &CircularBuffer<N, Plain>) -> Seq {
    let mut s = Seq::new();
    check!(wf(b), "[C09,C10] representation invariant broken (start/size out of range)");
    let st = if N > 0 && b.start < N { b.start } else { 0 };
    let sz = if b.size <= N { b.size } else { N };
    let mut i = 0;
    while i < sz { s.push(unsafe { (*b.items[phys(st, i, N)].as_ptr()).id }); i += 1; }
    s
}

/// drain over a type without destructor: same contents contract (C09); a leaked drain leaves a buffer disjoint
/// from the elements handed out (C10) - unique tokens without Drop can still not be duplicated
pub(crate) fn c_drain_plain<const N: usize>() {
    let mut b = any_plainbuf::<N>();
    let old = plain_ids(&b);
    let (lo, hi) = (any_bound(), any_bound());
    let rng = bounds_to_range(lo, hi, old.len);
    nd::assume(rng.is_some());
    let (a, e) = rng.unwrap();
    let mut m = sub_seq(&old, a, e);
    let mut held = Seq::new();
    let leak = nd::any_bool();
    {
        let mut d = b.drain((lo, hi));
        let steps = nd::usize_in(0, N + 1);
        let mut k = 0;
        while k < steps {
            check!(d.len() == m.len, "[C09] drain (no drop glue): len() differs from the number of elements not yet produced");
            if nd::any_bool() { let r = d.next().map(|p| p.id); let mr = m.pop_front(); check!(r == mr, "[C09] drain (no drop glue): next() yields the wrong element"); if let Some(x) = r { held.push(x); } }
            else { let r = d.next_back().map(|p| p.id); let mr = m.pop_back(); check!(r == mr, "[C09] drain (no drop glue): next_back() yields the wrong element"); if let Some(x) = r { held.push(x); } }
            k += 1;
        }
        if leak { core::mem::forget(d); } else { drop(d); }
    }
    let new = plain_ids(&b);
    if leak {
        let mut i = 0;
        while i < new.len {
            check!(old.contains(new.a[i]) && !held.contains(new.a[i]), "[C10] leaked drain (no drop glue): the buffer still holds an element that was already handed out (or a foreign one)");
            let mut j = 0; while j < i { check!(new.a[j] != new.a[i], "[C10] leaked drain (no drop glue): the buffer holds an element twice"); j += 1; }
            i += 1;
        }
    } else {
        let mut want = sub_seq(&old, 0, a); want.append(&sub_seq(&old, e, old.len));
        check!(new.eq(&want), "[C01,C09] drain (no drop glue): buffer is not (elements before the range) ++ (elements after the range)");
    }
    nd::reached();
    core::mem::forget(b);
}

/// the core mutators on elements without drop glue (guards against specialisations on mem::needs_drop)
pub(crate) fn c_ops_plain<const N: usize>() {
    let mut b = any_plainbuf::<N>();
    let old = plain_ids(&b);
    let op = nd::usize_in(0, 8);
    let arg = nd::any_usize();
    let mut m = old;
    let fresh = 20u8;
    if op == 0 { let r = b.push_back(Plain { id: fresh }).map(|p| p.id); let mr = m.push_back_capped(fresh, N); check!(r == mr, "[C01,C02] push_back (no drop glue): wrong displaced element"); }
    else if op == 1 { let r = b.push_front(Plain { id: fresh }).map(|p| p.id); let mr = m.push_front_capped(fresh, N); check!(r == mr, "[C01,C02] push_front (no drop glue): wrong displaced element"); }
    else if op == 2 { let r = b.pop_back().map(|p| p.id); let mr = m.pop_back(); check!(r == mr, "[C01] pop_back (no drop glue): wrong element"); }
    else if op == 3 { let r = b.pop_front().map(|p| p.id); let mr = m.pop_front(); check!(r == mr, "[C01] pop_front (no drop glue): wrong element"); }
    else if op == 4 { let r = b.remove(arg).map(|p| p.id); let mr = m.remove(arg); check!(r == mr, "[C01] remove (no drop glue): wrong element"); }
    else if op == 5 { b.truncate_back(arg); m.keep_first(arg); }
    else if op == 6 { b.truncate_front(arg); m.keep_last(arg); }
    else if op == 7 { b.clear(); m.keep_first(0); }
    else { let r = b.swap_remove_front(arg).map(|p| p.id); let mr = if arg < m.len { m.swap(arg, 0); m.pop_front() } else { None }; check!(r == mr, "[C01] swap_remove_front (no drop glue): wrong element"); }
    let new = plain_ids(&b);
    check!(new.eq(&m) && b.len() == m.len, "[C01] operation on elements without drop glue: contents differ from the capped-deque model");
    nd::reached();
    core::mem::forget(b);
}

// ----- comparison with arrays of every length (C13): [U; M], &[U; M], &mut [U; M] for M below, at and above len ---------------

pub(crate) fn c_eq_array<const N: usize, const M: usize>() {
    let a = any_u8buf::<N>();
    let sa = bytes_of(&a);
    let mut arr = [0u8; M];
    let mut i = 0; while i < M { arr[i] = nd::any_u8(); i += 1; }
    let mut sw = Seq::new(); let mut i = 0; while i < M { sw.push(arr[i]); i += 1; }
    let same = sa.eq(&sw);
    check!((a == arr) == same, "[C13] buffer == [U; M] differs from equality of the element sequences");
    check!((a == &arr) == same, "[C13] buffer == &[U; M] differs from equality of the element sequences");
    let mut arr2 = arr;
    { let am: &mut [u8; M] = &mut arr2; check!((a == am) == same, "[C13] buffer == &mut [U; M] differs from equality of the element sequences"); }
    nd::reached();
}

// ----- provided iterator methods that an impl may override: nth / nth_back / count / last (C08) ----------------

fn model_nth(m: &mut Seq, k: usize) -> Option<u8> {
    if k < m.len { let r = m.a[k]; let keep = m.len - k - 1; m.keep_last(keep); Some(r) } else { m.keep_first(0); None }
}
fn model_nth_back(m: &mut Seq, k: usize) -> Option<u8> {
    if k < m.len { let r = m.a[m.len - 1 - k]; let keep = m.len - k - 1; m.keep_first(keep); Some(r) } else { m.keep_first(0); None }
}

pub(crate) fn c_iter_nth<const N: usize>() {
    let mut b = any_tokbuf::<N>();
    let old = ids_of(&b);
    let (lo, hi) = (any_bound(), any_bound());
    let rng = bounds_to_range(lo, hi, old.len);
    nd::assume(rng.is_some());
    let (s, e) = rng.unwrap();
    let k = nd::usize_in(0, N + 1); let j = nd::usize_in(0, N + 1);
    let which = nd::usize_in(0, 3);
    let mut m = sub_seq(&old, s, e);
    if which == 0 {
        let mut it = b.range((lo, hi));
        let r = it.nth(k).map(|t| t.id); let mr = model_nth(&mut m, k);
        check!(r == mr && it.len() == m.len, "[C08] range(): nth(k) does not skip k elements and yield the next one, or len() is wrong afterwards");
        let r = it.nth_back(j).map(|t| t.id); let mr = model_nth_back(&mut m, j);
        check!(r == mr && it.len() == m.len, "[C08] range(): nth_back(k) does not skip k elements from the back and yield the next one, or len() is wrong afterwards");
        let n = it.clone().count(); let l = it.clone().last().map(|t| t.id);
        check!(n == m.len && l == (if m.len > 0 { Some(m.a[m.len - 1]) } else { None }), "[C08] range(): count() / last() disagree with the elements not yet produced");
    } else if which == 1 {
        let mut it = b.range_mut((lo, hi));
        let r = it.nth(k).map(|t| t.id); let mr = model_nth(&mut m, k);
        check!(r == mr && it.len() == m.len, "[C08] range_mut(): nth(k) does not skip k elements and yield the next one, or len() is wrong afterwards");
        let r = it.nth_back(j).map(|t| t.id); let mr = model_nth_back(&mut m, j);
        check!(r == mr && it.len() == m.len, "[C08] range_mut(): nth_back(k) does not skip k elements from the back and yield the next one, or len() is wrong afterwards");
    } else if which == 2 {
        nd::assume(s == 0 && e == old.len);
        let mut it = (&b).into_iter();
        let r = it.nth(k).map(|t| t.id); let mr = model_nth(&mut m, k);
        check!(r == mr && it.len() == m.len, "[C08] (&buf).into_iter(): nth(k) wrong, or len() wrong afterwards");
        let r = it.next_back().map(|t| t.id); let mr = m.pop_back();
        check!(r == mr && it.len() == m.len, "[C08] (&buf).into_iter(): next_back() after nth() wrong");
    } else {
        let mut d = b.drain((lo, hi));
        let r = d.nth(k); let mr = model_nth(&mut m, k);
        check!(opt_id(&r) == mr && d.len() == m.len, "[C08,C09] drain: nth(k) does not skip (and destroy) k elements and yield the next one, or len() is wrong afterwards");
        core::mem::forget(r);
        let r = d.nth_back(j); let mr = model_nth_back(&mut m, j);
        check!(opt_id(&r) == mr && d.len() == m.len, "[C08,C09] drain: nth_back(k) wrong, or len() wrong afterwards");
        core::mem::forget(r);
        core::mem::forget(d);
    }
    nd::reached();
    core::mem::forget(b);
}
