#!/bin/bash
# usage: tools/try_seed_copy.sh <dir with patch.diff> <property>...   -- like try_seed.sh but on a private copy of /repo (HEAD)
set -u
D="$1"; shift
C=$(mktemp -d /tmp/seedcopy-XXXX)
trap 'rm -rf "$C"' EXIT
( cd /repo && git archive HEAD | tar -x -C "$C" ) && cp /repo/Cargo.lock "$C/"
( cd "$C" && git init -q . && git apply "$D/patch.diff" ) || { echo "patch does not apply"; exit 3; }
cd /verif
for P in "$@"; do
  echo "=== $P on $(basename $(dirname $D))/$(basename $D)"
  VERIF_REPO="$C" VERIF_REPLAYS_DIR=/tmp/seed_replays VERIF_EVIDENCE_DIR=/tmp/seed_evidence ./check "$P" --tier ${TIER:-quick} ${EXTRA:-} > "$C/check.log" 2>&1
  rc=$?
  grep -E "VIOLATION|KNOWN-FINDING|UNDECIDED|^OK|failed obligation|failing input|note:" "$C/check.log" | cut -c1-300 | head -${LINES_MAX:-8}
  echo "rc=$rc"
done
