"""Per-property configuration of the checks (levels, legs, standing assumptions)."""

COMMON_VERUS = [
    'Verus 0.2026.09.13 and Z3 are sound; vstd specifications of core/std items are correct',
    'the trusted primitive specs listed in trusted_base (assume_specification / external_body) are correct; each is cross-checked by a Kani harness on the real body only for N <= 5',
    'extraction rewrites R1 (ptr::copy on one array = array_copy_within), R2 (swap_nonoverlapping = array_swap), R3 (nested items hoisted), R4 (debug_assert_eq -> debug_assert ==), R5 (cmp::min -> min_usize), R6 (trait-impl method emitted as inherent method, Self::Item substituted), R7 (`mut self` receiver -> `let mut this = self`), R8 (array.split_at_mut -> array_split_at_mut) preserve meaning; cfg(feature = "unstable") alternatives are dropped (the stable path is verified)',
    'a failed FUNCTIONAL Verus obligation that is contradicted by an exhausted native enumeration of the same contract on the real code (capacities 0..5) is reported as a lost proof (undecided), not as a violation (DESIGN.md 11.5)',
    'Verus does not model Drop, ownership transfer through assume_init_read, or unwinding',
]
COMMON_KANI = [
    'Kani 0.68 / CBMC 6.11 are sound, including their models of ptr::copy, mem::replace, MaybeUninit and slices',
    'Kani builds with panic=abort and debug assertions on, on its own pinned nightly toolchain and std',
    'parametricity in T: the crate cannot inspect T, so pairwise-distinct ledger tokens (and u8 for byte impls) are the most general contents',
    'results of the Kani leg hold per instantiated capacity N (listed) and are bounded in N',
    'beyond the Kani capacities the same harness-encoded contracts are only ENUMERATED natively on the real code at N = 6 (all) and 7, 8 (single-element operations and views): a bounded stand-in, exhaustive over layouts and small argument classes where the evidence says `exhausted`, never counted as proved',
]


def P(level, verus, explanation, assumptions=None, not_covered=None):
    a = []
    if verus:
        a += COMMON_VERUS
    a += COMMON_KANI
    a += assumptions or []
    return dict(level=level, verus=verus, explanation=explanation, assumptions=a, not_covered=not_covered or [])


PROPS = {
    'C01': P('proof', True,
             'Verus proves, for every N, T, layout and argument, that each mutator of lib.rs preserves the representation invariant and transforms the '
             'abstract view exactly as the capped deque of the statement does (postconditions over the whole view, taken from the statement). '
             'The same contracts are re-checked on the unmodified crate by Kani per capacity (bounded in N), which also covers the trait impls Verus cannot reach.'),
    'C02': P('proof', True,
             'Verus proves the four insertion contracts (returned element identity, Err exactly when full, buffer unchanged on Err) for all N including 0; '
             'Kani repeats them with ledger tokens per capacity.'),
    'C03': P('other', False,
             'Kani ledger contracts: after every operation each token ever created is in exactly one place (buffer, caller, destroyed once); Tok::drop asserts it is not destroyed twice. '
             'Complete per capacity N, bounded in N. Verus does not model Drop, so there is no unbounded part.'),
    'C04': P('proof', True,
             'Verus proves at every assume_init_* / slice cast / drop_range call site that the slots are initialised under wf (all N); all contracts are functions of the view only. '
             'Kani leaves unoccupied slots as nondeterministic bytes so any dependence on them fails some filling (bounded in N).'),
    'C05': P('other', False,
             'Kani destructor precondition: at every entry to an element destructor inside an element-destroying operation the element lies outside the committed window '
             'of the buffer and that window is a valid all-live sequence - the state that remains if that destructor unwinds. Bounded in N; Kani does not execute unwinding. '
             'BOUNDED STAND-IN for the unwind paths themselves (what guard objects do while a panic propagates is outside any contract): the real code is executed natively with one injected, '
             'caught destructor panic per run, exhaustively over every layout x operation x argument x panic position for N <= 3 (quick) / 4 (thorough), including From<[T;M]>, IntoIter and buffer drop; '
             'no element may be destroyed twice and the buffer must be a valid, normally behaving sequence afterwards. This part is an enumeration, labelled bounded, never counted as proved.'),
    'C06': P('other', False,
             'Kani user-code precondition: at every entry to T::clone, the fill_with closure, the extend/from_iter iterator and element eq inside an operation, the buffer is a '
             'valid all-live sequence (the state that remains if that call unwinds) and the ledger shows no element both destroyed and reachable. Bounded in N; Kani does not execute unwinding. '
             'BOUNDED STAND-IN for the unwind paths (incl. the "nothing is leaked" half): the real code is executed natively with one injected, caught panic at the k-th clone / closure / iterator / eq call, '
             'exhaustively over every layout x operation x argument x k for N <= 3 (quick) / 4 (thorough); afterwards the buffer must be valid and behave normally, nothing may be destroyed twice, and once '
             'everything is dropped every element ever created must have been destroyed exactly once. This part is an enumeration, labelled bounded, never counted as proved.'),
    'C07': P('proof', True,
             'Verus proves get/nth/front/back/as_slices/make_contiguous against the view for all N and all indices including usize::MAX; Kani proves per capacity that every accessor '
             '(incl. Index/IndexMut, iter, iter_mut, as_mut_slices, to_vec) returns the address of exactly the slot holding that position, pairwise distinct, and that a write through it changes only that position.',
             not_covered=['Debug: no contract within reach (core::fmt exhausts CBMC, Verus has no fmt model); BOUNDED STAND-IN p_debug: native execution, every layout of a byte buffer for N <= 3/4, '
                          '7 formatter flag combinations, buffer / iter / iter_mut / range / range_mut / into_iter / drain compared with the equivalent slice; labelled bounded']),
    'C12': P('other', True,
             'Kani contracts per (N, M): new/default/boxed empty; From<[T;M]>, from_iter, extend keep the last N in order and destroy the rest exactly once (ledger); clone/clone_from/to_vec give '
             'fresh clones (parent ids) in order, source untouched, nothing shared; into_iter yields the original elements in order. Bounded in N and M.'),
    'C08': P('proof', True,
             'Verus proves the single-step contracts of Iter (new, next, next_back, len, size_hint, clone, empty) and IntoIter (next, next_back, len, size_hint) over the abstract '
             'remaining-elements view for all N, T and all states, so every interleaving follows by induction and exhausted iterators stay exhausted; the len() overflow-freedom needs the invariant |right|+|left| <= usize::MAX. '
             'Kani single-step contracts for Iter / IterMut / IntoIter over every (Bound, Bound) pair and every interleaving of next / next_back up to N+1 steps: each call yields the '
             'front-most / back-most selected element not yet produced (by id and by address), len()/size_hint() are exact at every step, a cloned Iter continues independently, '
             'exhausted iterators stay exhausted, default iterators are empty. Complete per capacity N, bounded in N; over_range / IterMut are covered by the Kani leg only (vstd gives no usable spec for generic RangeBounds / split_first_mut on &mut &mut [T]).'),
    'C09': P('other', True,
             'Kani contract for drain over every (Bound, Bound) pair, every layout, every interleaving of next / next_back up to N+1 steps and drop after any number of steps: yields exactly '
             'orig[a..b] in order, exact len, afterwards the buffer is orig[..a] ++ orig[b..], every drained element not handed out is destroyed exactly once (ledger); capacities include 0. Bounded in N.'),
    'C10': P('other', False,
             'Invariant proved by Kani per capacity: from the return of drain() until its drop the buffer itself is the empty valid sequence (size == 0, wf) after every step; after mem::forget the '
             'buffer is a valid sequence of live distinct original elements disjoint from those handed out, keeps behaving like the model, and dropping it destroys nothing twice. Bounded in N.'),
    'C13': P('other', False,
             'Kani contracts over u8 buffers with both layouts symbolic: eq == equality of the element sequences for capacity pairs (N, M) incl. slices, arrays and references to them; '
             'partial_cmp/cmp == lexicographic order; equal same-capacity buffers feed identical data to a recording Hasher. Bounded in (N, M).',
             not_covered=['Debug: no contract within reach (core::fmt exhausts CBMC); BOUNDED STAND-IN p_debug (native, every layout for N <= 3/4, 7 flag combinations, buffer and all iterators / drain vs the equivalent slice); labelled bounded']),
    'C14': P('other', True,
             'Verus proves (all N) the functions the impls are built from: extend_from_slice keeps the last N of (old contents ++ input), truncate_front keeps the suffix, as_slices presents the contents. '
             'Kani contracts for std::io::{Write, Read, BufRead} on CircularBuffer<N, u8>: symbolic layout, symbolic input / destination lengths, consume(k) over the full usize range; '
             'results and contents are those of the byte-stream model; never Err, never a panic, capacity 0 included. Bounded in N.'),
    'C16': P('other', False,
             'Kani: the embedded-io and embedded-io-async impls are run on a bitwise copy of the same symbolic state as the std::io impls and must return the same counts/bytes and leave the same contents; '
             'async fns are polled once with a no-op waker and must be Ready. Feature sets: embedded-io, embedded-io-async, both. Bounded in N.'),
    'C17': P('other', False,
             'Frame contract "calls no allocator entry point": the operation contracts are re-run with std::alloc::{alloc, alloc_zeroed, realloc} stubbed to panic (positive control: boxed() must trip the stub). '
             'Build half: the crate (with the harness module) compiles and verifies under --no-default-features and --no-default-features --features alloc, and plain cargo check succeeds for both. Bounded in N.',
             assumptions=['every heap allocation goes through std::alloc::alloc / alloc_zeroed / realloc (the global allocator API)']),
    'C18': P('other', False,
             'The same deterministic contracts (C01-C13 harnesses) are discharged on the crate built with --features unstable on Kani\'s nightly; both builds satisfying the same functional contracts '
             'gives equal results, contents and ledger events. Bounded in N. BOUNDED STAND-IN (differential): the native scenario harnesses (20 operations, the destructor- and user-code panic injections, Debug) are enumerated on two native builds - '
             'default/stable and --features unstable/nightly - and the hash of the observable trace (results, contents, destructor and clone order, Debug output, caught panics) must be identical for every choice vector, N <= 3/4; labelled bounded.'),
    'C11': P('proof', True,
             'Verus proves absence of panics (assert!/debug_assert!/expect), arithmetic overflow, out-of-bounds indexing, division by zero and non-termination for every verified '
             'function under wf alone (swap: under the documented index condition), for all N including 0 and all arguments including usize::MAX. '
             'Kani repeats it per capacity and decides the must-panic direction by reachability. BOUNDED STAND-IN for the clause "a call that panics for one of these reasons leaves the buffer unchanged" '
             '(needs the state after a panic, which neither verifier has): native execution of the real code, every layout x call x argument class for N <= 3/4, panic caught, buffer compared; labelled bounded.'),
    'C19': P('proof', True,
             'Verus proves all index arithmetic (add_mod, sub_mod and every caller) free of overflow/underflow/division by zero for every N <= usize::MAX, every start < N and every T '
             '(layout-agnostic, so zero-sized types are included). Destructor counts for a zero-sized type are checked by Kani per capacity. '
             'BOUNDED STAND-IN for extreme capacities in the functions Verus cannot reach (drain, ranges, iterators; CBMC cannot represent arrays of usize::MAX elements): native execution with a zero-sized element, '
             'N = usize::MAX and N = usize::MAX/2+2, front at 0 / N/2 / N-3 / N-2 / N-1, up to 3 elements, 14 operations x 6 argument classes, overflow checks on; labelled bounded.'),
    'C20': P('proof', True,
             'Verus frame clauses: each O(1) operation changes at most the written slot(s) of the backing array and moves start by at most one; remove(i) changes only slots of '
             'positions >= i; make_contiguous changes nothing when the occupied range does not wrap. Kani counts relocated surviving tokens per capacity.'),
}

TECHNIQUE = {
    'C01': 'contract-based deductive verification: Verus postconditions over the abstract view on the extracted real functions (all N) + Kani contract harnesses on the unmodified crate (per N)',
    'C02': 'contract-based deductive verification: Verus insertion contracts (all N incl. 0) + Kani ledger contracts (per N)',
    'C03': 'contract-based verification with Kani: ledger (ghost-state) conservation clause in every operation contract, complete per N',
    'C04': 'contract-based deductive verification: Verus is_init preconditions at every assume_init/slice-cast call site (all N) + Kani contracts over nondeterministic unoccupied storage',
    'C05': 'Kani contract harnesses (destructor-entry precondition, per N) + BOUNDED native panic-injection stand-in for the unwind paths',
    'C06': 'Kani contract harnesses (user-code-entry precondition, per N) + BOUNDED native panic-injection stand-in for the unwind paths and the leak clause',
    'C07': 'contract-based deductive verification: Verus accessor / view contracts (all N) + Kani address-identity contracts (per N); Debug only by a bounded native stand-in',
    'C08': 'contract-based deductive verification: Verus single-step iterator contracts (all N) + Kani iterator-script contracts over all Bound pairs (per N)',
    'C09': 'contract-based verification with Kani: full drain contract per N (all Bound pairs, all interleavings, ledger) + Verus proof of the circular cursor arithmetic',
    'C10': 'contract-based verification with Kani: drain invariant (buffer empty and valid after every step) and leaked-drain contract, per N',
    'C11': 'contract-based deductive verification: Verus panic/overflow/bounds/termination freedom under wf (all N) + Kani totality and must-panic reachability (per N) + bounded native stand-in for the post-panic state',
    'C12': 'contract-based verification with Kani: constructor / conversion contracts with ledger and clone-parent ghost state over an (N, M) grid; Verus for new/default/IntoIter',
    'C13': 'contract-based verification with Kani: eq / ord / hash contracts over u8 buffers with both layouts symbolic, (N, M) pairs; Debug only by a bounded native stand-in',
    'C14': 'contract-based verification: Kani byte-stream contracts for the std::io impls per N + Verus proofs (all N) of extend_from_slice / truncate_front / as_slices',
    'C16': 'contract-based verification with Kani: embedded-io(-async) impls against the std::io impls on a bitwise copy of the same symbolic state, three feature sets',
    'C17': 'contract-based verification with Kani: frame contract "no allocator entry point is called" via allocator stubs on the operation contracts + no_std/alloc-only builds',
    'C18': 'contract-based verification with Kani under --features unstable (same contracts as the default build) + BOUNDED native differential stand-in (two builds, identical observable traces)',
    'C19': 'contract-based deductive verification: Verus overflow/division/bounds freedom of all index arithmetic for every N <= usize::MAX + Kani ZST contracts per N + bounded native stand-in at N = usize::MAX',
    'C20': 'contract-based deductive verification: Verus frame clauses (no slot holding a surviving element changes) for all N + Kani relocation-count contracts per N',
}
LEVEL_TEXT = {}
DESIGN_REF = {}

NOT_APPLICABLE = {
    'C15': 'variance, borrow extent, const-ness and auto-trait membership are decided by rustc on witness programs, half of which must be REJECTED; '
           'none of this can be written as requires/ensures/invariant for Verus or Kani, and "does not compile" is not an obligation either tool discharges (DESIGN.md section 7)',
}
for _p in ['C03', 'C04', 'C05', 'C06', 'C07', 'C08', 'C09', 'C10', 'C11', 'C12', 'C13', 'C14', 'C16', 'C17', 'C18', 'C19', 'C20', 'C01']:
    if _p not in PROPS and _p not in NOT_APPLICABLE:
        NOT_APPLICABLE[_p] = 'contract harnesses for this property are not built yet in this revision of /verif (planned: see DESIGN.md section 6)'
